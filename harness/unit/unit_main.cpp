// UNIT engine: node_version64 (C17), comparison sites (C18), permutation (C19) against reference models.
#define VF_DEFINE_NOOP_HOOKS_CUSTOM
#include <csetjmp>

#include "kvs.h"

#include "../common/chooser.h"
#include "../common/keys.h"
#include "../common/runner.h"
#include "../common/stats.h"
#include "../common/walker.h"

namespace unit {
using namespace yakushima; // NOLINT
using vf::Chooser;

// ---- hooks: count events / spins, allow escaping from an endless spin --------------------------------
static thread_local std::uint64_t g_spin_yields = 0;
static thread_local std::uint64_t g_spin_limit = 0; // 0 = unlimited
static thread_local std::jmp_buf g_jb;
static thread_local std::uint64_t g_perm_stores = 0;
static thread_local std::uint64_t g_total_yields = 0;
} // namespace unit

namespace yakushima::verif {
void yield(int kind, const void* /*addr*/) noexcept {
    ++unit::g_total_yields;
    if ((kind & Y_ACCESS_MASK) == Y_SPIN) {
        ++unit::g_spin_yields;
        if (unit::g_spin_limit != 0 && unit::g_spin_yields > unit::g_spin_limit) { std::longjmp(unit::g_jb, 1); }
    }
    if (unit::g_total_yields > 2000000000ULL) {
        std::fprintf(stdout, "FAIL signature=hang msg=yield budget exceeded\n");
        _exit(3);
    }
}
void event(int ev, const void* /*obj*/, std::uint64_t /*a*/, std::uint64_t /*b*/) noexcept {
    if (ev == EV_PERM_STORE) { ++unit::g_perm_stores; }
}
bool sleep_hook(std::size_t /*ms*/) noexcept { return false; }
void thread_begin(int /*kind*/) noexcept {}
void thread_end(int /*kind*/) noexcept {}
} // namespace yakushima::verif

namespace unit {

struct Fail {
    std::string signature;
    std::string message;
};

// =====================================================================================================
// C17: node version word
// =====================================================================================================
struct VModel {
    bool locked, ins, split, deleted, root, border;
    std::uint32_t vinsert, vsplit;
    bool operator==(const VModel& o) const {
        return locked == o.locked && ins == o.ins && split == o.split && deleted == o.deleted && root == o.root && border == o.border &&
               vinsert == o.vinsert && vsplit == o.vsplit;
    }
    std::string str() const {
        std::ostringstream ss;
        ss << "{vins=" << vinsert << " L=" << locked << " I=" << ins << " S=" << split << " vsplit=" << vsplit << " D=" << deleted << " R=" << root
           << " B=" << border << "}";
        return ss.str();
    }
};
inline VModel read_model(const node_version64_body& b) {
    return VModel{b.get_locked(), b.get_inserting_deleting(), b.get_splitting(), b.get_deleted(), b.get_root(), b.get_border(),
                  b.get_vinsert_delete(), b.get_vsplit()};
}
constexpr std::uint32_t kCtrMask = (1U << 29U) - 1U;

inline void run_c17(Chooser& c, vf::Stats& st, bool record, std::string& text) {
    // arbitrary 64-bit word; counters biased to the wrap-around boundary
    std::uint64_t w = 0;
    for (int i = 0; i < 8; ++i) { w |= static_cast<std::uint64_t>(c.byte()) << (8U * i); }
    node_version64_body init{};
    std::memcpy(&init, &w, 8);
    bool wrap_case = false;
    switch (c.range(0, 5)) {
        case 0: break;
        case 1: { // vinsert at the boundary
            node_version64_body b = init;
            std::uint64_t raw = 0;
            std::memcpy(&raw, &b, 8);
            raw |= kCtrMask; // low 29 bits (the implementation's layout is not assumed by the oracle, only by this generator)
            std::memcpy(&b, &raw, 8);
            init = b;
            wrap_case = true;
            break;
        }
        case 2: {
            std::uint64_t raw = 0;
            std::memcpy(&raw, &init, 8);
            raw |= static_cast<std::uint64_t>(kCtrMask) << 32U;
            std::memcpy(&init, &raw, 8);
            wrap_case = true;
            break;
        }
        case 3: {
            std::uint64_t raw = 0;
            std::memcpy(&raw, &init, 8);
            raw |= kCtrMask;
            raw |= static_cast<std::uint64_t>(kCtrMask) << 32U;
            raw -= c.flip() ? 1 : 0;
            std::memcpy(&init, &raw, 8);
            wrap_case = true;
            break;
        }
        default: break;
    }
    node_version64 nv;
    nv.set_body(init);
    VModel m = read_model(nv.get_body());
    std::ostringstream tx;
    tx << "word=0x" << std::hex << w << std::dec << " " << m.str() << " ops:";
    auto compare = [&](const char* after) {
        VModel got = read_model(nv.get_body());
        ++st.checks;
        if (!(got == m)) {
            text = tx.str();
            throw Fail{std::string("version_") + after, std::string("after ") + after + ": word is " + got.str() + " model says " + m.str() + "; " + text};
        }
    };
    unsigned nops = 1 + c.range(0, 11);
    bool did_flagged_unlock = false;
    bool did_wrap = false;
    for (unsigned i = 0; i < nops; ++i) {
        unsigned op = c.range(0, 9);
        switch (op) {
            case 0: // lock (only defined to return when the word is not locked)
                if (m.locked) {
                    // must not return: it spins.  escape after 50 spin yields.
                    g_spin_yields = 0;
                    g_spin_limit = 50;
                    bool returned = true;
                    if (setjmp(g_jb) == 0) { // NOLINT
                        nv.lock();
                    } else {
                        returned = false;
                    }
                    g_spin_limit = 0;
                    tx << " lock(blocked)";
                    if (returned) {
                        text = tx.str();
                        throw Fail{"lock_not_exclusive", "lock() returned although the word was already locked; " + text};
                    }
                } else {
                    nv.lock();
                    m.locked = true;
                    tx << " lock";
                }
                compare("lock");
                break;
            case 1: // unlock (pre: locked)
                if (!m.locked) { break; }
                nv.unlock();
                if (m.ins) {
                    if (m.vinsert == kCtrMask) { did_wrap = true; }
                    m.vinsert = (m.vinsert + 1) & kCtrMask;
                    did_flagged_unlock = true;
                }
                if (m.split) {
                    if (m.vsplit == kCtrMask) { did_wrap = true; }
                    m.vsplit = (m.vsplit + 1) & kCtrMask;
                    did_flagged_unlock = true;
                }
                m.ins = m.split = m.locked = false;
                tx << " unlock";
                compare("unlock");
                break;
            case 2: {
                bool v = c.flip();
                nv.atomic_set_inserting_deleting(v);
                m.ins = v;
                tx << " set_ins(" << v << ")";
                compare("atomic_set_inserting_deleting");
                break;
            }
            case 3: {
                bool v = c.flip();
                nv.atomic_set_splitting(v);
                m.split = v;
                tx << " set_split(" << v << ")";
                compare("atomic_set_splitting");
                break;
            }
            case 4: {
                bool v = c.flip();
                nv.atomic_set_deleted(v);
                m.deleted = v;
                tx << " set_deleted(" << v << ")";
                compare("atomic_set_deleted");
                break;
            }
            case 5: {
                bool v = c.flip();
                nv.atomic_set_root(v);
                m.root = v;
                tx << " set_root(" << v << ")";
                compare("atomic_set_root");
                break;
            }
            case 6: {
                bool v = c.flip();
                nv.atomic_set_border(v);
                m.border = v;
                tx << " set_border(" << v << ")";
                compare("atomic_set_border");
                break;
            }
            case 7:
                nv.atomic_inc_vinsert();
                if (m.vinsert == kCtrMask) { did_wrap = true; }
                m.vinsert = (m.vinsert + 1) & kCtrMask;
                tx << " inc_vinsert";
                compare("atomic_inc_vinsert");
                break;
            default: { // get_stable_version: returns immediately iff clean, never returns a dirty word
                bool clean = !m.locked && !m.ins && !m.split;
                g_spin_yields = 0;
                g_spin_limit = 50;
                bool returned = true;
                node_version64_body sv{};
                if (setjmp(g_jb) == 0) { // NOLINT
                    sv = nv.get_stable_version();
                } else {
                    returned = false;
                }
                g_spin_limit = 0;
                tx << " stable(" << (returned ? "returned" : "blocked") << ")";
                ++st.checks;
                if (clean && !returned) {
                    text = tx.str();
                    throw Fail{"stable_blocks_on_clean", "get_stable_version spins on a clean word; " + text};
                }
                if (!clean && returned) {
                    text = tx.str();
                    throw Fail{"stable_returned_dirty", "get_stable_version returned while the word was locked or dirty; " + text};
                }
                if (returned) {
                    VModel got = read_model(sv);
                    if (!(got == m)) {
                        text = tx.str();
                        throw Fail{"stable_wrong_value", "stable version " + got.str() + " differs from the model " + m.str() + "; " + text};
                    }
                }
                break;
            }
        }
    }
    text = tx.str();
    if (record) {
        bool nontrivial = did_flagged_unlock || did_wrap;
        if (did_wrap) { st.cls("counter_wrapped"); }
        if (did_flagged_unlock) { st.cls("flagged_unlock"); }
        if (wrap_case) { st.cls("boundary_word"); }
        if (nontrivial) {
            st.nontrivial(vf::fnv1a(text));
            std::string key = did_wrap ? "counter_wrapped" : "flagged_unlock";
            if (st.want_sample(key)) { st.sample(key, text); }
        }
    }
}

// =====================================================================================================
// C18: comparison sites
// =====================================================================================================
using key_tuple = base_node::key_tuple;

struct Tup {
    key_slice_type s{0};
    unsigned l{0};
    std::string witness; // a key (suffix) whose tuple this is
};
inline Tup gen_tuple(Chooser& c) {
    static const unsigned char alpha[] = {0x00, 0x01, 0x7f, 0x80, 0xfe, 0xff, 'a'};
    Tup t;
    t.l = c.range(0, 9);
    unsigned nb = t.l > 8 ? 8 : t.l;
    unsigned char b[8] = {0, 0, 0, 0, 0, 0, 0, 0};
    // bias towards shared prefixes: bytes mostly from a tiny alphabet, often equal
    unsigned char fill = alpha[c.range(0, 6)];
    for (unsigned i = 0; i < nb; ++i) { b[i] = c.chance(1, 3) ? alpha[c.range(0, 6)] : fill; }
    std::memcpy(&t.s, b, 8);
    t.witness.assign(reinterpret_cast<const char*>(b), nb);
    if (t.l > 8) { t.witness.push_back('x'); } // continues in the next layer
    return t;
}
inline std::string tup_str(const Tup& t) {
    return "(" + vf::hex(std::string(reinterpret_cast<const char*>(&t.s), 8)) + "," + std::to_string(t.l) + ")";
}

inline void run_c18(Chooser& c, vf::Stats& st, bool record, std::string& text) {
    unsigned site = vf::g_decoder >= 2 ? c.range(0, 5) : c.range(0, 4);
    std::ostringstream tx;
    bool nontrivial = false;
    auto decided_by_length = [](const Tup& a, const Tup& b) {
        unsigned ea = a.l > 8 ? 8 : a.l;
        unsigned eb = b.l > 8 ? 8 : b.l;
        return std::memcmp(&a.s, &b.s, ea < eb ? ea : eb) == 0;
    };
    switch (site) {
        case 5: {
            // interior split boundary through the API: 128 ascending keys make the root interior full (15 separators, separator j = first
            // key of border j + 1); the pivot of the next interior split is separator #7 = key 64.  Border 7 is made of one low key and the
            // proper prefixes B, Bp, .., Bp^6 of the pivot Bp^7 (or of the link Bp^7..), seven more low keys fill it, and a 16th key between
            // two prefixes splits it so that the new separator is a proper prefix of the pivot (or the 8-byte key below the link with the
            // same slice): the side decision of interior_split must send it LEFT of the pivot.
            const char B = static_cast<char>(0x30 + c.range(0, 0x40));
            static const char pads[] = {'a', '\x01', '\xff', '\x7f'};
            const char p = pads[c.range(0, 3)];
            const bool pivot_is_link = c.chance(1, 3);
            const unsigned which = c.range(0, 3); // how many prefixes stay below the new separator
            std::vector<std::string> keys; // ascending
            const std::string lowbase(1, static_cast<char>(B - 1));
            for (unsigned i = 0; i < 57; ++i) { keys.push_back(lowbase + std::string(1, static_cast<char>(i + 1))); }
            std::vector<std::string> fam;
            for (unsigned k = 0; k < 7; ++k) { fam.push_back(std::string(1, B) + std::string(k, p)); }
            for (auto& f : fam) { keys.push_back(f); }
            const std::string pivot = std::string(1, B) + std::string(7, p) + (pivot_is_link ? std::string("zz") : std::string());
            keys.push_back(pivot);
            const std::string highbase(1, static_cast<char>(B + 1));
            for (unsigned i = 0; i < 63; ++i) { keys.push_back(highbase + std::string(1, static_cast<char>(i + 1))); }
            tx << "interior split boundary: B=" << static_cast<int>(static_cast<unsigned char>(B)) << " pad=" << static_cast<int>(static_cast<unsigned char>(p))
               << (pivot_is_link ? " pivot is a link" : " pivot is an 8-byte key") << " prefixes_below_separator=" << which;
            text = tx.str();
            std::set<std::string> model(keys.begin(), keys.end());
            if (model.size() != 128) { throw Fail{"harness", "site 5 key construction: " + text}; }
            tree_instance ti;
            Token tok{};
            enter(tok);
            char v = 'v';
            auto ins = [&](const std::string& k) {
                if (put<char>(tok, &ti, k, &v, true, 1) != status::OK) { throw Fail{"harness", "put failed: " + text}; }
                model.insert(k);
            };
            for (auto& k : keys) { ins(k); }
            // border 7 = {low[56], B, Bp, .., Bp^6}: 8 - which low fillers sort below the prefixes, `which` keys sort between prefixes above
            // the future separator, the last insert is the 16th entry
            const std::string low56 = lowbase + std::string(1, static_cast<char>(57));
            std::vector<std::string> extra;
            for (unsigned i = 0; i < 7 - which; ++i) { extra.push_back(low56 + std::string(1, static_cast<char>(i + 1))); }
            // keys between fam[which + j] and fam[which + j + 1]: fam[..] + pad + 0x00 sorts right behind fam[..] + pad's predecessor
            for (unsigned j = 0; j <= which; ++j) {
                const std::string& f = fam[which + (j < 6 - which ? j : 0)];
                extra.push_back(f + std::string(1, p) + std::string(1, '\0') + std::string(1, static_cast<char>('0' + j)));
            }
            for (auto& k : extra) {
                if (model.count(k) == 0) { ins(k); }
            }
            vf::WalkOut w = vf::walk(&ti);
            ++st.checks;
            if (!w.ok) { throw Fail{"interior_split_side", "structure after the interior split: " + w.err + "; " + text}; }
            std::vector<std::string> wk;
            for (auto& e : w.entries) { wk.push_back(e.key); }
            std::vector<std::string> exp(model.begin(), model.end());
            ++st.checks;
            if (wk != exp) { throw Fail{"interior_split_side", "in-order walk after the interior split differs from the sorted key set; " + text}; }
            for (auto& k : exp) {
                std::pair<char*, std::size_t> out{};
                ++st.checks;
                if (get<char>(&ti, k, out) != status::OK) { throw Fail{"interior_split_side", "key \"" + vf::show(k) + "\" is not found after the interior split; " + text}; }
            }
            leave(tok);
            ti.load_root_ptr()->destroy();
            delete ti.load_root_ptr(); // NOLINT
            ti.store_root_ptr(nullptr);
            nontrivial = w.n_interior >= 3;
            st.cls(w.n_interior >= 3 ? "interior_split_at_prefix_boundary" : "site5_no_interior_split");
            break;
        }
        case 0: { // key_tuple operators on triples
            Tup a = gen_tuple(c);
            Tup b = gen_tuple(c);
            Tup d = gen_tuple(c);
            if (c.chance(1, 4)) { b = a; }
            tx << "key_tuple a=" << tup_str(a) << " b=" << tup_str(b) << " c=" << tup_str(d);
            text = tx.str();
            key_tuple ka(a.s, static_cast<key_length_type>(a.l));
            key_tuple kb(b.s, static_cast<key_length_type>(b.l));
            key_tuple kd(d.s, static_cast<key_length_type>(d.l));
            auto chk = [&](const Tup& x, const Tup& y, const key_tuple& kx, const key_tuple& ky) {
                int r = vf::ref_tuple_cmp(x.s, x.l, y.s, y.l);
                ++st.checks;
                // the reference itself agrees with the string order of witness keys
                int w = x.witness.compare(y.witness);
                bool both_link_same = x.l > 8 && y.l > 8;
                if (!both_link_same && ((r < 0) != (w < 0) || (r > 0) != (w > 0))) {
                    throw Fail{"harness_ref_order", "reference tuple order disagrees with std::string order: " + text};
                }
                if ((kx < ky) != (r < 0) || (kx > ky) != (r > 0) || (kx <= ky) != (r <= 0) || (kx >= ky) != (r >= 0) || (kx == ky) != (r == 0) ||
                    (kx != ky) != (r != 0)) {
                    throw Fail{"key_tuple_order", "key_tuple operators disagree with bytewise order for " + tup_str(x) + " vs " + tup_str(y) + "; " + text};
                }
            };
            chk(a, b, ka, kb);
            chk(b, a, kb, ka);
            chk(b, d, kb, kd);
            chk(a, d, ka, kd);
            chk(a, a, ka, ka);
            if (ka < kb && kb < kd && !(ka < kd)) { throw Fail{"key_tuple_order", "key_tuple order is not transitive: " + text}; }
            // key_tuple(string_view) constructor agrees with the tuple it denotes
            key_tuple from_sv{std::string_view(a.witness)};
            if (!(from_sv == ka)) { throw Fail{"key_tuple_ctor", "key_tuple(string_view) != (slice,len) for " + tup_str(a)}; }
            // the cursor's bounds (interface_iscan.h): min() is below or equal to, max() above or equal to every tuple a node can store, and the
            // right-to-left start tuple of a next layer {0xFF*8, 10} is strictly above every storable tuple, the link {0xFF*8, 9} included
            {
                ++st.checks;
                const key_tuple above(~key_slice_type{0}, static_cast<key_length_type>(sizeof(key_slice_type) + 2));
                for (const key_tuple* k : {&ka, &kb, &kd}) {
                    if (!(*k < above) || !(above > *k) || above <= *k || *k >= above) {
                        throw Fail{"key_tuple_order", "the right-to-left start tuple {0xFF*8, 10} is not above a storable tuple; " + text};
                    }
                    if (*k < key_tuple::min() || *k > key_tuple::max()) {
                        throw Fail{"key_tuple_order", "key_tuple::min()/max() do not bracket a storable tuple; " + text};
                    }
                }
                const key_tuple ff_link(~key_slice_type{0}, static_cast<key_length_type>(sizeof(key_slice_type) + 1));
                if (!(ff_link < above)) { throw Fail{"key_tuple_order", "{0xFF*8, 10} is not above the link {0xFF*8, 9}"}; }
            }
            nontrivial = decided_by_length(a, b) || decided_by_length(b, d);
            if (nontrivial) { st.cls("tuple_decided_by_length"); }
            break;
        }
        case 1: { // border node: rank computation and lookup through the real put path
            unsigned n = 1 + c.range(0, 14);
            std::vector<Tup> ts;
            for (unsigned i = 0; i < n; ++i) {
                Tup t = gen_tuple(c);
                bool dup = false;
                for (auto& o : ts) {
                    if (vf::ref_tuple_cmp(o.s, o.l, t.s, t.l) == 0) { dup = true; }
                }
                if (!dup) { ts.push_back(t); }
            }
            Tup probe = gen_tuple(c);
            if (c.chance(1, 4)) { probe = ts[c.range(0, static_cast<std::uint32_t>(ts.size() - 1))]; }
            tx << "border entries:";
            for (auto& t : ts) { tx << " " << tup_str(t); }
            tx << " probe=" << tup_str(probe);
            text = tx.str();
            tree_instance ti;
            Token tok{};
            enter(tok);
            char v = 'v';
            for (auto& t : ts) {
                if (put<char>(tok, &ti, t.witness, &v, true, 1) != status::OK) { throw Fail{"harness", "put failed: " + text}; }
            }
            auto* b = dynamic_cast<border_node*>(ti.load_root_ptr());
            if (b == nullptr || b->get_permutation_cnk() != ts.size()) { throw Fail{"harness", "unexpected root shape: " + text}; }
            // entries sorted by the reference order (walker does the same check; here directly)
            permutation perm{b->get_permutation().get_body()};
            for (std::size_t r = 1; r < ts.size(); ++r) {
                std::size_t i0 = perm.get_index_of_rank(r - 1);
                std::size_t i1 = perm.get_index_of_rank(r);
                ++st.checks;
                if (vf::ref_tuple_cmp(b->get_key_slice_at(i0), b->get_key_length_at(i0), b->get_key_slice_at(i1), b->get_key_length_at(i1)) >= 0) {
                    throw Fail{"border_order", "border entries not in bytewise order: " + text};
                }
            }
            unsigned less = 0;
            bool equal = false;
            for (auto& t : ts) {
                int r = vf::ref_tuple_cmp(t.s, t.l, probe.s, probe.l);
                if (r < 0) { ++less; }
                if (r == 0) { equal = true; }
            }
            node_version64_body sv{};
            std::size_t pos = 0;
            link_or_value* lv = b->get_lv_of(probe.s, static_cast<key_length_type>(probe.l > 8 ? 9 : probe.l), sv, pos);
            ++st.checks;
            if ((lv != nullptr) != equal) { throw Fail{"border_lookup", "get_lv_of found=" + std::to_string(lv != nullptr) + " but reference says equal=" + std::to_string(equal) + "; " + text}; }
            if ((b->get_lv_of_without_lock(probe.s, static_cast<key_length_type>(probe.l > 8 ? 9 : probe.l)) != nullptr) != equal) {
                throw Fail{"border_lookup", "get_lv_of_without_lock disagrees with the reference; " + text};
            }
            if (!equal) {
                std::size_t rk = b->compute_rank_if_insert(probe.s, static_cast<key_length_type>(probe.l > 8 ? 9 : probe.l));
                ++st.checks;
                if (rk != less) { throw Fail{"border_rank", "compute_rank_if_insert=" + std::to_string(rk) + " reference=" + std::to_string(less) + "; " + text}; }
            }
            // re-sorting: rearrange() must reproduce the same order from slot order
            {
                border_node* bb = b;
                std::uint64_t before = bb->get_permutation().get_body();
                // slots are filled 0..n-1 in insertion order, so rearrange over the first n slots is applicable
                bb->permutation_rearrange();
                ++st.checks;
                if (bb->get_permutation().get_body() != before) { throw Fail{"perm_rearrange_order", "permutation::rearrange orders differently from the insert path; " + text}; }
            }
            leave(tok);
            ti.load_root_ptr()->destroy();
            delete ti.load_root_ptr(); // NOLINT
            ti.store_root_ptr(nullptr);
            for (auto& t : ts) {
                if (decided_by_length(t, probe) && vf::ref_tuple_cmp(t.s, t.l, probe.s, probe.l) != 0) { nontrivial = true; }
            }
            if (nontrivial) { st.cls("border_probe_shares_prefix"); }
            break;
        }
        case 2: { // interior node: routing and insertion on a hand-built node
            unsigned n = 1 + c.range(0, 13);
            std::vector<Tup> seps;
            for (unsigned i = 0; i < n + 3; ++i) {
                Tup t = gen_tuple(c);
                if (t.l == 0) { continue; }
                bool dup = false;
                for (auto& o : seps) {
                    if (vf::ref_tuple_cmp(o.s, o.l, t.s, t.l) == 0) { dup = true; }
                }
                if (!dup && seps.size() < n) { seps.push_back(t); }
            }
            if (seps.empty()) { break; }
            std::sort(seps.begin(), seps.end(), [](const Tup& x, const Tup& y) { return vf::ref_tuple_cmp(x.s, x.l, y.s, y.l) < 0; });
            Tup probe = gen_tuple(c);
            if (c.chance(1, 4)) { probe = seps[c.range(0, static_cast<std::uint32_t>(seps.size() - 1))]; }
            tx << "interior separators:";
            for (auto& t : seps) { tx << " " << tup_str(t); }
            tx << " probe=" << tup_str(probe);
            text = tx.str();
            std::vector<border_node*> kids;
            auto* in = new interior_node(); // NOLINT
            in->init_interior();
            for (std::size_t i = 0; i <= seps.size(); ++i) {
                auto* k = new border_node(); // NOLINT
                k->init_border();
                k->set_version_root(false);
                k->set_parent(in);
                kids.push_back(k);
                in->set_child_at(i, k);
            }
            for (std::size_t i = 0; i < seps.size(); ++i) { in->set_key(i, seps[i].s, static_cast<key_length_type>(seps[i].l > 8 ? 9 : seps[i].l)); }
            in->set_n_keys(static_cast<std::uint8_t>(seps.size()));
            unsigned le = 0; // number of separators <= probe  => child index
            for (auto& t : seps) {
                if (vf::ref_tuple_cmp(t.s, t.l, probe.s, probe.l) <= 0) { ++le; }
            }
            node_version64_body v = in->get_stable_version();
            base_node* got = in->get_child_of(probe.s, static_cast<key_length_type>(probe.l > 8 ? 9 : probe.l), v);
            ++st.checks;
            if (got != kids[le]) {
                std::size_t gi = 999;
                for (std::size_t i = 0; i < kids.size(); ++i) {
                    if (kids[i] == got) { gi = i; }
                }
                for (auto* k : kids) { delete k; } // NOLINT
                delete in;                          // NOLINT
                throw Fail{"interior_route", "get_child_of picked child " + std::to_string(gi) + " reference says " + std::to_string(le) + "; " + text};
            }
            // insertion of a new pivot (not equal to any separator) keeps the order
            bool is_new = probe.l != 0;
            for (auto& t : seps) {
                if (vf::ref_tuple_cmp(t.s, t.l, probe.s, probe.l) == 0) { is_new = false; }
            }
            if (is_new && seps.size() < 15) {
                auto* nk = new border_node(); // NOLINT
                nk->init_border();
                kids.push_back(nk);
                in->lock();
                in->insert(nk, std::make_pair(probe.s, static_cast<key_length_type>(probe.l > 8 ? 9 : probe.l)));
                in->version_unlock();
                std::size_t nkeys = in->get_n_keys();
                ++st.checks;
                bool ok = nkeys == seps.size() + 1;
                for (std::size_t i = 1; ok && i < nkeys; ++i) {
                    if (vf::ref_tuple_cmp(in->get_key_slice_at(i - 1), in->get_key_length_at(i - 1), in->get_key_slice_at(i), in->get_key_length_at(i)) >= 0) { ok = false; }
                }
                // the new child sits right of its pivot
                unsigned lt = 0;
                for (auto& t : seps) {
                    if (vf::ref_tuple_cmp(t.s, t.l, probe.s, probe.l) < 0) { ++lt; }
                }
                if (ok && in->get_child_at(lt + 1) != nk) { ok = false; }
                if (!ok) {
                    for (auto* k : kids) { delete k; } // NOLINT
                    delete in;                          // NOLINT
                    throw Fail{"interior_insert", "interior_node::insert broke the separator order / child position; " + text};
                }
            }
            for (auto& t : seps) {
                if (decided_by_length(t, probe) && vf::ref_tuple_cmp(t.s, t.l, probe.s, probe.l) != 0) { nontrivial = true; }
            }
            if (nontrivial) { st.cls("interior_probe_shares_prefix"); }
            for (auto* k : kids) { delete k; } // NOLINT
            delete in;                          // NOLINT
            break;
        }
        default: { // both split kinds: fill a layer with tuples, the walker checks order, bounds and left < right
            unsigned n = site == 3 ? 16 + c.range(0, 4) : 200 + c.range(0, 80);
            std::vector<std::string> keys;
            std::set<std::string> seen;
            if (site == 3 && c.chance(2, 3)) {
                // directed: a full border of 15 tuples, then a 16th key that is a close relative of the entry at the split point
                // (rank 8 = first entry of the right half) or of its left neighbour: same slice with another length, the 8-byte key
                // of a link, the link of an 8-byte key, last byte +-1.  This is where the side decision has to get the tie-breaks right.
                std::vector<Tup> ts;
                for (int guard = 0; ts.size() < 15 && guard < 200; ++guard) {
                    Tup t = gen_tuple(c);
                    bool dup = false;
                    for (auto& o : ts) {
                        if (vf::ref_tuple_cmp(o.s, o.l, t.s, t.l) == 0) { dup = true; }
                    }
                    if (!dup) { ts.push_back(t); }
                }
                if (ts.size() == 15) {
                    std::vector<Tup> sorted = ts;
                    std::sort(sorted.begin(), sorted.end(), [](const Tup& x, const Tup& y) { return vf::ref_tuple_cmp(x.s, x.l, y.s, y.l) < 0; });
                    // insertion order of the 15: generated
                    std::uint32_t sd = c.range(1, 65535);
                    for (std::size_t i = ts.size(); i > 1; --i) {
                        sd = sd * 1103515245U + 12345U;
                        std::swap(ts[i - 1], ts[(sd >> 8U) % i]);
                    }
                    for (auto& t : ts) { keys.push_back(t.witness); }
                    const Tup& e = sorted[c.chance(3, 4) ? 8 : 7];
                    std::string nk = e.witness;
                    switch (c.range(0, 5)) {
                        case 0: if (!nk.empty()) { nk.pop_back(); } break;                // shorter by one (link -> its 8-byte key)
                        case 1: nk.push_back('\0'); break;                                // longer by a zero byte
                        case 2: nk.push_back('x'); break;                                  // longer (8-byte key -> link)
                        case 3: if (!nk.empty()) { nk.back() = static_cast<char>(static_cast<unsigned char>(nk.back()) - 1); } break;
                        case 4: if (!nk.empty()) { nk.back() = static_cast<char>(static_cast<unsigned char>(nk.back()) + 1); } break;
                        default: nk = nk.substr(0, nk.size() / 2);
                    }
                    nk = nk.substr(0, 9);
                    keys.push_back(nk);
                    for (auto& k : keys) { seen.insert(k.substr(0, 9)); }
                    n = 0; // nothing more to generate
                    tx << "directed split: 15 tuples + \"" << vf::show(nk) << "\" next to the split point; ";
                }
            }
            for (unsigned i = 0; i < n * 2 && keys.size() < n; ++i) {
                Tup t = gen_tuple(c);
                std::string k = t.witness;
                if (site == 4) {
                    // more distinct tuples for interior splits: two generated tuples concatenated into one 8-byte slice
                    Tup u = gen_tuple(c);
                    k = (t.witness + u.witness).substr(0, 8);
                    if (c.chance(1, 3)) { k.push_back('x'); }
                    k.insert(k.begin(), static_cast<char>(i & 0xffU));
                    k = k.substr(0, 9);
                }
                if (seen.insert(k.substr(0, 9)).second) { keys.push_back(k); }
            }
            tx << (site == 3 ? "border split fill n=" : "interior split fill n=") << keys.size();
            text = tx.str();
            tree_instance ti;
            Token tok{};
            enter(tok);
            char v = 'v';
            std::set<std::string> model;
            for (auto& k : keys) {
                status rc = put<char>(tok, &ti, k, &v, true, 1);
                // keys sharing the first 8 bytes and longer than 8 share one link: the second one goes into the next layer
                if (rc != status::OK && rc != status::WARN_UNIQUE_RESTRICTION) { throw Fail{"harness", "put failed"}; }
                if (rc == status::OK) { model.insert(k); }
            }
            vf::WalkOut w = vf::walk(&ti);
            ++st.checks;
            if (!w.ok) { throw Fail{"split_order", "structure after splits: " + w.err + "; " + text}; }
            std::vector<std::string> wk;
            for (auto& e : w.entries) { wk.push_back(e.key); }
            std::vector<std::string> exp(model.begin(), model.end());
            if (wk != exp) { throw Fail{"split_order", "in-order walk after splits differs from the sorted key set; " + text}; }
            for (auto& k : exp) {
                std::pair<char*, std::size_t> out{};
                if (get<char>(&ti, k, out) != status::OK) { throw Fail{"split_lookup", "key lost after splits; " + text}; }
            }
            leave(tok);
            ti.load_root_ptr()->destroy();
            delete ti.load_root_ptr(); // NOLINT
            ti.store_root_ptr(nullptr);
            nontrivial = w.n_border >= 2;
            st.cls(w.n_interior >= 2 ? "interior_split" : (w.n_border >= 2 ? "border_split" : "no_split"));
        }
    }
    text = tx.str();
    if (record && nontrivial) {
        st.nontrivial(vf::fnv1a(text));
        std::string key = "site" + std::to_string(site);
        if (st.want_sample(key)) { st.sample(key, text); }
    }
    if (record) { st.cls("site" + std::to_string(site)); }
}

// =====================================================================================================
// C19: permutation word
// =====================================================================================================
inline void run_c19(Chooser& c, vf::Stats& st, bool record, std::string& text) {
    permutation p;
    std::vector<std::uint8_t> model; // slot numbers in key order
    std::ostringstream tx;
    // prior ordering over a random slot subset: build through the model, then write the body directly
    unsigned n0 = c.range(0, 15);
    std::vector<std::uint8_t> slots;
    for (std::uint8_t i = 0; i < 15; ++i) { slots.push_back(i); }
    std::uint32_t s = c.range(1, 65535);
    for (std::size_t i = slots.size(); i > 1; --i) {
        s = s * 1103515245U + 12345U;
        std::swap(slots[i - 1], slots[(s >> 8U) % i]);
    }
    model.assign(slots.begin(), slots.begin() + n0);
    std::uint64_t body = n0;
    for (unsigned r = 0; r < n0; ++r) { body |= static_cast<std::uint64_t>(model[r]) << (4U * (r + 1)); }
    p.set_body(body);
    tx << "init n=" << n0 << " order=[";
    for (auto x : model) { tx << static_cast<int>(x) << " "; }
    tx << "] ops:";
    bool edge = false;
    auto compare = [&](const char* after, std::uint64_t stores_expected) {
        ++st.checks;
        bool ok = p.get_cnk() == model.size();
        for (std::size_t r = 0; ok && r < model.size(); ++r) {
            if (p.get_index_of_rank(r) != model[r]) { ok = false; }
        }
        if (ok && !model.empty() && p.get_lowest_key_pos() != model[0]) { ok = false; }
        if (!ok) {
            text = tx.str();
            std::ostringstream m;
            m << "after " << after << ": permutation holds n=" << static_cast<int>(p.get_cnk()) << " [";
            for (std::size_t r = 0; r < p.get_cnk() && r < 15; ++r) { m << p.get_index_of_rank(r) << " "; }
            m << "] model n=" << model.size() << " [";
            for (auto x : model) { m << static_cast<int>(x) << " "; }
            m << "]; " << text;
            throw Fail{std::string("perm_") + after, m.str()};
        }
        if (g_perm_stores != stores_expected) {
            text = tx.str();
            throw Fail{"perm_not_single_store", std::string(after) + " published the word with " + std::to_string(g_perm_stores) + " stores; " + text};
        }
        if (model.size() < 15) {
            std::size_t e = p.get_empty_slot();
            ++st.checks;
            if (e >= 15 || std::find(model.begin(), model.end(), static_cast<std::uint8_t>(e)) != model.end()) {
                text = tx.str();
                throw Fail{"perm_empty_slot", "get_empty_slot returned slot " + std::to_string(e) + " which is in use; " + text};
            }
        }
    };
    g_perm_stores = 0;
    compare("init", 0);
    unsigned nops = 1 + c.range(0, 19);
    for (unsigned i = 0; i < nops; ++i) {
        unsigned op = static_cast<unsigned>(c.weighted({5, 5, 1, 1, 1}));
        g_perm_stores = 0;
        switch (op) {
            case 4: {
                // rearrange: slots 0..n-1 hold generated distinct tuples; the word must list them in key order (reference order)
                unsigned n = c.range(0, 15);
                std::array<key_slice_type, key_slice_length> ks{};
                std::array<key_length_type, key_slice_length> kl{};
                std::vector<Tup> ts;
                for (unsigned j = 0; j < n; ++j) {
                    Tup t = gen_tuple(c);
                    bool dup = false;
                    for (auto& o : ts) {
                        if (vf::ref_tuple_cmp(o.s, o.l, t.s, t.l) == 0) { dup = true; }
                    }
                    if (dup) { continue; }
                    ts.push_back(t);
                }
                n = static_cast<unsigned>(ts.size());
                for (unsigned j = 0; j < n; ++j) {
                    ks.at(j) = ts[j].s;
                    kl.at(j) = static_cast<key_length_type>(ts[j].l);
                }
                p.split_dest(n); // count n, identity order
                g_perm_stores = 0;
                p.rearrange(ks, kl);
                std::vector<std::uint8_t> idx;
                for (unsigned j = 0; j < n; ++j) { idx.push_back(static_cast<std::uint8_t>(j)); }
                std::sort(idx.begin(), idx.end(), [&](std::uint8_t x, std::uint8_t y) { return vf::ref_tuple_cmp(ts[x].s, ts[x].l, ts[y].s, ts[y].l) < 0; });
                model = idx;
                tx << " rearrange(n=" << n << ":";
                for (auto& t : ts) { tx << " " << tup_str(t); }
                tx << ")";
                if (n >= 2) { edge = true; }
                compare("rearrange", 1);
                break;
            }
            case 0: { // insert at rank with the reported free slot
                if (model.size() >= 15) { break; }
                std::size_t rank = c.range(0, static_cast<std::uint32_t>(model.size()));
                if (c.chance(1, 3)) { rank = c.flip() ? 0 : model.size(); }
                std::size_t slot = p.get_empty_slot();
                p.insert_rank(rank, slot);
                model.insert(model.begin() + static_cast<long>(rank), static_cast<std::uint8_t>(slot));
                tx << " ins(r" << rank << ",s" << slot << ")";
                if (model.size() >= 13 || rank == 0 || rank + 1 == model.size()) { edge = true; }
                compare("insert_rank", 1);
                break;
            }
            case 1: {
                if (model.empty()) { break; }
                std::size_t rank = c.range(0, static_cast<std::uint32_t>(model.size() - 1));
                if (c.chance(1, 3)) { rank = c.flip() ? 0 : model.size() - 1; }
                if (model.size() >= 13 || rank == 0 || rank + 1 == model.size()) { edge = true; }
                p.delete_rank(rank);
                model.erase(model.begin() + static_cast<long>(rank));
                tx << " del(r" << rank << ")";
                compare("delete_rank", 1);
                break;
            }
            case 2: {
                std::size_t k = c.range(0, 15);
                p.split_dest(k);
                model.clear();
                for (std::size_t j = 0; j < k; ++j) { model.push_back(static_cast<std::uint8_t>(j)); }
                tx << " split_dest(" << k << ")";
                if (k >= 13) { edge = true; }
                compare("split_dest", 1);
                break;
            }
            default: {
                // set_cnk keeps the order of the first k entries
                if (model.empty()) { break; }
                std::size_t k = c.range(0, static_cast<std::uint32_t>(model.size()));
                p.set_cnk(static_cast<std::uint8_t>(k));
                model.resize(k);
                tx << " set_cnk(" << k << ")";
                compare("set_cnk", 1);
            }
        }
    }
    text = tx.str();
    if (record) {
        if (edge) {
            st.nontrivial(vf::fnv1a(text));
            st.cls("edge_rank_or_n_ge_13");
            if (st.want_sample("edge")) { st.sample("edge", text); }
        }
    }
}

// exhaustive part of C19: every (n, rank) for insert and delete on every rotation of a base ordering
inline void c19_exhaustive(vf::Stats& st) {
    for (unsigned n = 0; n <= 15; ++n) {
        for (unsigned rot = 0; rot < 15; ++rot) {
            std::vector<std::uint8_t> base;
            for (unsigned i = 0; i < n; ++i) { base.push_back(static_cast<std::uint8_t>((i * 7 + rot) % 15)); }
            std::uint64_t body = n;
            for (unsigned r = 0; r < n; ++r) { body |= static_cast<std::uint64_t>(base[r]) << (4U * (r + 1)); }
            for (unsigned rank = 0; rank <= n; ++rank) {
                if (n < 15) {
                    permutation p(body);
                    std::size_t slot = p.get_empty_slot();
                    p.insert_rank(rank, slot);
                    std::vector<std::uint8_t> m = base;
                    m.insert(m.begin() + rank, static_cast<std::uint8_t>(slot));
                    ++st.checks;
                    bool ok = p.get_cnk() == m.size() && std::find(base.begin(), base.end(), static_cast<std::uint8_t>(slot)) == base.end();
                    for (std::size_t r = 0; ok && r < m.size(); ++r) { ok = p.get_index_of_rank(r) == m[r]; }
                    if (!ok) { throw Fail{"perm_insert_rank", "exhaustive: insert_rank wrong for n=" + std::to_string(n) + " rank=" + std::to_string(rank) + " rot=" + std::to_string(rot)}; }
                }
                if (rank < n) {
                    permutation p(body);
                    p.delete_rank(rank);
                    std::vector<std::uint8_t> m = base;
                    m.erase(m.begin() + rank);
                    ++st.checks;
                    bool ok = p.get_cnk() == m.size();
                    for (std::size_t r = 0; ok && r < m.size(); ++r) { ok = p.get_index_of_rank(r) == m[r]; }
                    if (!ok) { throw Fail{"perm_delete_rank", "exhaustive: delete_rank wrong for n=" + std::to_string(n) + " rank=" + std::to_string(rank) + " rot=" + std::to_string(rot)}; }
                }
            }
        }
    }
    st.cls("exhaustive_n_rank_rotation_done");
    // the orderings real leaves have: filled in ascending, descending, middle-out or alternating key order (slots are handed out by
    // get_empty_slot), then every single and every double delete, each followed by the free-slot check and an insert at every rank.
    // A defect confined to a few words (a fast path for "sorted" leaves, a mistyped constant) lives in this family, not among
    // uniformly random orderings.
    auto check = [&](const permutation& p, const std::vector<std::uint8_t>& m, const char* what, unsigned pat, unsigned n) {
        ++st.checks;
        bool ok = p.get_cnk() == m.size();
        for (std::size_t r = 0; ok && r < m.size(); ++r) { ok = p.get_index_of_rank(r) == m[r]; }
        if (ok && m.size() < 15) {
            std::size_t e = p.get_empty_slot();
            ok = e < 15 && std::find(m.begin(), m.end(), static_cast<std::uint8_t>(e)) == m.end();
            if (!ok) {
                std::string o;
                for (auto x : m) { o += std::to_string(static_cast<int>(x)) + " "; }
                throw Fail{"perm_empty_slot", "structured family (" + std::string(what) + ", fill pattern " + std::to_string(pat) + ", n=" + std::to_string(n) +
                                                      "): get_empty_slot returned slot " + std::to_string(e) + " which is in use; ordering [" + o + "]"};
            }
        }
        if (!ok) {
            throw Fail{std::string("perm_") + what, "structured family: wrong word after " + std::string(what) + " (fill pattern " + std::to_string(pat) + ", n=" + std::to_string(n) + ")"};
        }
    };
    auto insert_everywhere = [&](const permutation& p0, const std::vector<std::uint8_t>& m0, unsigned pat, unsigned n) {
        if (m0.size() >= 15) { return; }
        for (std::size_t rank = 0; rank <= m0.size(); ++rank) {
            permutation q(p0.get_body());
            std::vector<std::uint8_t> m = m0;
            std::size_t slot = q.get_empty_slot();
            q.insert_rank(rank, slot);
            m.insert(m.begin() + static_cast<long>(rank), static_cast<std::uint8_t>(slot));
            check(q, m, "insert_rank", pat, n);
        }
    };
    for (unsigned pat = 0; pat < 4; ++pat) {
        for (unsigned n = 0; n <= 15; ++n) {
            permutation p;
            std::vector<std::uint8_t> m;
            for (unsigned i = 0; i < n; ++i) {
                std::size_t rank = 0;
                switch (pat) {
                    case 0: rank = m.size(); break;        // ascending keys
                    case 1: rank = 0; break;               // descending keys
                    case 2: rank = m.size() / 2; break;    // middle-out
                    default: rank = (i % 2 == 0) ? 0 : m.size(); // alternating ends
                }
                std::size_t slot = p.get_empty_slot();
                p.insert_rank(rank, slot);
                m.insert(m.begin() + static_cast<long>(rank), static_cast<std::uint8_t>(slot));
                check(p, m, "insert_rank", pat, n);
            }
            insert_everywhere(p, m, pat, n);
            for (std::size_t d1 = 0; d1 < m.size(); ++d1) {
                permutation p1(p.get_body());
                std::vector<std::uint8_t> m1 = m;
                p1.delete_rank(d1);
                m1.erase(m1.begin() + static_cast<long>(d1));
                check(p1, m1, "delete_rank", pat, n);
                insert_everywhere(p1, m1, pat, n);
                for (std::size_t d2 = 0; d2 < m1.size(); ++d2) {
                    permutation p2(p1.get_body());
                    std::vector<std::uint8_t> m2 = m1;
                    p2.delete_rank(d2);
                    m2.erase(m2.begin() + static_cast<long>(d2));
                    check(p2, m2, "delete_rank", pat, n);
                    insert_everywhere(p2, m2, pat, n);
                }
            }
        }
    }
    st.cls("exhaustive_structured_fill_delete_family_done");
}

inline vf::CaseResult run_case(const vf::RunnerArgs& args, const std::vector<std::uint8_t>& bytes, bool record, vf::Stats& st) {
    vf::CaseResult res;
    Chooser c(bytes);
    std::string text;
    try {
        static bool exhaustive_done = false;
        if (args.prop == "C19" && !exhaustive_done) {
            exhaustive_done = true;
            c19_exhaustive(st);
        }
        // several small sub-cases per byte string keeps the per-case overhead of rapidcheck low
        unsigned reps = 0;
        while (!c.exhausted() && reps < 16) {
            ++reps;
            if (args.prop == "C17") {
                run_c17(c, st, record, text);
            } else if (args.prop == "C18") {
                run_c18(c, st, record, text);
            } else {
                run_c19(c, st, record, text);
            }
            if (record && reps > 1) { ++st.evaluations; }
        }
    } catch (const Fail& f) {
        res.pass = false;
        res.signature = f.signature;
        res.message = f.message;
    }
    // leave no session behind
    for (auto& ti : thread_info_table::get_thread_info_table()) {
        ti.get_gc_info().fin();
        if (ti.get_running()) {
            ti.set_begin_epoch(0);
            ti.set_running(false);
        }
    }
    return res;
}

} // namespace unit

int main(int argc, char** argv) {
    FLAGS_logtostderr = true;
    FLAGS_minloglevel = 3;
    google::InitGoogleLogging(argv[0]);
    vf::RunnerArgs args = vf::parse_args(argc, argv);
    return vf::runner_main(args, unit::run_case);
}
