// SEQ engine front-end (rapidcheck-driven generation and single-case replay).
#define VF_DEFINE_NOOP_HOOKS
#include "../common/hooks_noop.h"

#include "seq_core.h"

#include <pthread.h>

namespace {
vf::RunnerArgs g_args;
int g_rc = 0;
void* thread_main(void*) {
    vf::tl_counting = true;
    g_rc = vf::runner_main(g_args, [](const vf::RunnerArgs& a, const std::vector<std::uint8_t>& b, bool record,
                                      vf::Stats& st) {
        vf::tl_yields = 0;
        return seq::run_case(a, b, record, st);
    });
    return nullptr;
}
} // namespace

int main(int argc, char** argv) {
    FLAGS_logtostderr = true;
    FLAGS_minloglevel = 3; // the library logs "unexpected path" noise on some legal inputs; failures come from oracles
    google::InitGoogleLogging(argv[0]);
    g_args = vf::parse_args(argc, argv);
    // deep recursion for 30 KiB keys (3840 layers): run on a thread with a large stack
    pthread_attr_t attr;
    pthread_attr_init(&attr);
    pthread_attr_setstacksize(&attr, 1024UL * 1024UL * 1024UL);
    pthread_t th{};
    pthread_create(&th, &attr, thread_main, nullptr);
    pthread_join(th, nullptr);
    return g_rc;
}
