// C11: everything allocated is released.  Generated programs run inside real init()/fin() cycles (epoch and gc threads
// running, YAKUSHIMA_EPOCH_TIME=1); the replaced operator new/delete account for every block.
#define VF_DEFINE_NOOP_HOOKS
#include "../common/hooks_noop.h"
#define VF_ALLOC_TRACK_IMPL
#include "../common/alloc_track.h"

#include "seq_core.h"

#include <pthread.h>

namespace {
std::atomic<std::uint64_t> g_retired_values{0}, g_retired_nodes{0}, g_reclaimed{0}, g_fin_reclaimed{0};
void sink(int ev, const void*, std::uint64_t, std::uint64_t) {
    using namespace yakushima::verif; // NOLINT
    if (ev == EV_RETIRE_VALUE) { ++g_retired_values; }
    if (ev == EV_RETIRE_NODE) { ++g_retired_nodes; }
    if (ev == EV_RECLAIM_VALUE || ev == EV_RECLAIM_NODE) { ++g_reclaimed; }
    if (ev == EV_FIN_RECLAIM_VALUE || ev == EV_FIN_RECLAIM_NODE) { ++g_fin_reclaimed; }
}
std::uint32_t g_generation = 1;

vf::CaseResult run_once(const vf::RunnerArgs& args, const std::vector<std::uint8_t>& bytes, bool record, vf::Stats& st, bool judge) {
    vf::CaseResult res;
    static seq::Profile pf = seq::make_profile("C11", args.tier);
    const std::uint32_t gen = ++g_generation;
    const std::uint64_t err0 = track::errors();
    g_retired_values = g_retired_nodes = g_reclaimed = g_fin_reclaimed = 0;
    std::string program;
    std::set<std::string> classes;
    unsigned cycles = 1;
    bool left_open = false;
    track::set_generation(gen);
    {
        vf::Chooser c(bytes);
        cycles = 1 + c.range(0, 2);
        for (unsigned cy = 0; cy < cycles && res.pass; ++cy) {
            yakushima::init();
            {
                seq::Interp in(pf, c, st, false);
                in.trace = args.verbose;
                in.leave_session_open = c.chance(1, 5);
                left_open = left_open || in.leave_session_open;
                try {
                    in.run();
                } catch (const seq::Fail& f) {
                    res.pass = false;
                    res.signature = f.signature;
                    res.message = f.message;
                }
                track::set_generation(0);
                program += "cycle " + std::to_string(cy) + (in.leave_session_open ? " (session left open)" : "") + ":\n" + in.program_text(30);
                for (auto& cl : in.classes) { classes.insert(cl); }
                track::set_generation(gen);
            }
            // let the background threads work for a moment in some cases (reclaim while running, not only in fin)
            if (c.chance(1, 3)) { std::this_thread::sleep_for(std::chrono::milliseconds(3)); }
            yakushima::fin();
        }
    }
    track::set_generation(0);
    std::uint64_t bytes_leaked = 0;
    std::uint64_t leaked = track::live_in_generation(gen, &bytes_leaked);
    if (res.pass && judge) {
        ++st.checks;
        if (leaked != 0) {
            char buf[400];
            track::describe_generation(gen, buf, sizeof buf);
            res.pass = false;
            res.signature = "leak";
            res.message = std::to_string(leaked) + " block(s), " + std::to_string(bytes_leaked) + " bytes allocated during the case are still live after fin(): " + buf +
                          "\n--- program ---\n" + program;
        } else if (track::errors() != err0) {
            res.pass = false;
            res.signature = "bad_delete";
            res.message = std::string(track::last_error()) + "\n--- program ---\n" + program;
        }
    }
    if (record && judge) {
        bool nontrivial = g_retired_values > 0 && g_retired_nodes > 0;
        if (g_retired_values > 0) { st.cls("retired_values"); }
        if (g_retired_nodes > 0) { st.cls("retired_nodes"); }
        if (g_reclaimed > 0) { st.cls("reclaimed_while_running"); }
        if (g_fin_reclaimed > 0) { st.cls("reclaimed_by_fin"); }
        if (left_open) { st.cls("session_left_open_at_fin"); }
        if (cycles > 1) { st.cls("multi_cycle"); }
        for (auto& cl : classes) { st.cls(cl); }
        if (nontrivial && res.pass) {
            st.nontrivial(vf::fnv1a(program));
            std::string key = left_open ? "left_open" : (cycles > 1 ? "multi_cycle" : "single_cycle");
            if (st.want_sample(key)) { st.sample(key, program); }
        }
    }
    return res;
}

vf::RunnerArgs g_args;
int g_rc = 0;
void* thread_main(void*) {
    vf::tl_counting = false;
    g_rc = vf::runner_main(g_args, [](const vf::RunnerArgs& a, const std::vector<std::uint8_t>& b, bool record, vf::Stats& st) {
        static bool warmed = false;
        if (!warmed) {
            // first-use allocations of the libraries (glog, tbb, libstdc++ locale ...) must not count as leaks: run the case once unjudged
            warmed = true;
            vf::Stats dummy;
            run_once(a, b, false, dummy, false);
            std::vector<std::uint8_t> rich(300);
            for (std::size_t i = 0; i < rich.size(); ++i) { rich[i] = static_cast<std::uint8_t>(i * 37 + 11); }
            run_once(a, rich, false, dummy, false);
        }
        if (a.mode == "replay") {
            // judge a second execution in the same process: a first-use effect cannot repeat
            vf::Stats dummy;
            run_once(a, b, false, dummy, false);
        }
        return run_once(a, b, record, st, true);
    });
    return nullptr;
}
} // namespace

int main(int argc, char** argv) {
    FLAGS_logtostderr = true;
    FLAGS_minloglevel = 3;
    google::InitGoogleLogging(argv[0]);
    LOG(ERROR) << "warm up glog";
    g_args = vf::parse_args(argc, argv);
    vf::g_event_sink = sink;
    (void) vf::slice_pool();
    track::enable(true);
    pthread_attr_t attr;
    pthread_attr_init(&attr);
    pthread_attr_setstacksize(&attr, 512UL * 1024UL * 1024UL);
    pthread_t th{};
    pthread_create(&th, &attr, thread_main, nullptr);
    pthread_join(th, nullptr);
    return g_rc;
}
