// libFuzzer front-end of the SEQ engine: the same byte-string decoder, interpreter and oracles as seq_main.cpp, driven by
// coverage-guided mutation instead of rapidcheck.  The oracle is inside the target; on a failure the decoded case and the
// signature are written next to the statistics, then the process traps so that libFuzzer saves the input as crash-*.
//   env VF_PROP=C02|C03|C05|C08|C10|C12|C13|C15|C20, VF_OUT=<dir>, VF_TIER, VF_KNOWN=sig,sig
#define VF_DEFINE_NOOP_HOOKS
#include "../common/hooks_noop.h"

#include "seq_core.h"

namespace {
vf::RunnerArgs g_args;
vf::Stats g_st;
std::string g_out;
bool g_init = false;
void dump() { g_st.dump(g_out + "/stats.fuzz.json", g_out + "/fp.fuzz.bin"); }
void init_once() {
    FLAGS_logtostderr = true;
    FLAGS_minloglevel = 3;
    google::InitGoogleLogging("fuzz_seq");
    const char* p = std::getenv("VF_PROP");
    g_args.prop = p != nullptr ? p : "C02";
    const char* t = std::getenv("VF_TIER");
    g_args.tier = t != nullptr ? t : "quick";
    const char* o = std::getenv("VF_OUT");
    g_out = o != nullptr ? o : ".";
    const char* k = std::getenv("VF_KNOWN");
    if (k != nullptr) {
        std::stringstream ss(k);
        std::string s;
        while (std::getline(ss, s, ',')) {
            if (!s.empty()) { g_args.known.insert(s); }
        }
    }
    g_st.property = g_args.prop;
    std::atexit(dump);
    g_init = true;
}
} // namespace

extern "C" int LLVMFuzzerTestOneInput(const std::uint8_t* data, std::size_t size) {
    if (!g_init) { init_once(); }
    vf::tl_counting = true;
    vf::tl_yields = 0;
    std::vector<std::uint8_t> bytes(data, data + size);
    vf::CaseResult r = seq::run_case(g_args, bytes, true, g_st); // resets the library state at its end
    ++g_st.evaluations;
    if (!r.pass) {
        if (g_args.known.count(r.signature) != 0) {
            ++g_st.known[r.signature];
            return 0;
        }
        FILE* f = std::fopen((g_out + "/fail.fuzz.txt").c_str(), "w");
        if (f != nullptr) {
            std::fprintf(f, "FAIL signature=%s\n%s\n", r.signature.c_str(), r.message.c_str());
            std::fclose(f);
        }
        std::fprintf(stderr, "FAIL signature=%s msg=%s\n", r.signature.c_str(), r.message.substr(0, 3000).c_str());
        dump();
        __builtin_trap();
    }
    return 0;
}
