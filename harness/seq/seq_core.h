// SEQ engine: API-level programs decoded from a byte string, executed against the real library and
// against a reference model (std::map), with per-property oracles.  One interpreter serves
// C02 C03 C05 C08 C10 C12 C13 C15 C20; the profile chosen by --prop selects generator weights, the
// oracles that are judged and the non-triviality rule.
#pragma once
#include <algorithm>
#include <functional>
#include <map>
#include <optional>
#include <set>
#include <sstream>
#include <string>
#include <vector>

#include "kvs.h"

#include "../common/chooser.h"
#include "../common/keys.h"
#include "../common/runner.h"
#include "../common/stats.h"
#include "../common/walker.h"

namespace seq {

using namespace yakushima; // NOLINT
using vf::Chooser;
using vf::show;

struct Fail {
    std::string signature;
    std::string message;
};

struct MVal {
    bool inl{false};
    std::uint32_t id{0};
    std::string bytes;       // out-of-line contents
    std::size_t align{1};    // requested alignment
    std::uintptr_t word{0};  // inline contents
    void* created{nullptr};  // created_value_ptr reported at put (may be null if not requested)
};
using MStore = std::map<std::string, MVal>;

struct Profile {
    std::string prop;
    // op weights
    unsigned w_put{5}, w_put_unique{1}, w_get{2}, w_remove{3}, w_scan{0}, w_iscan{0}, w_bulk_put{1},
            w_bulk_remove{1}, w_full{1}, w_phantom{0}, w_mem{0}, w_ddl{0}, w_reenter{0}, w_cursor_mix{0},
            w_remove_all_reinsert{0}, w_value_rt{0};
    bool judge_point{false}, judge_scan{false}, judge_iscan{false}, judge_nodeinfo{false}, judge_mem{false},
            judge_full{false}, judge_storage{false}, judge_value{false}, judge_phantom{false}, judge_early_abort{false};
    bool multi_storage{false};
    bool big_keys{false};
    bool huge_values{false};
    bool inline_values{false};
    bool varied_values{false}; // lengths / alignments from the C15 generator
    std::size_t max_ops{400};
    std::size_t bulk_max{300};
};

inline Profile make_profile(const std::string& prop, const std::string& tier) {
    Profile p;
    p.prop = prop;
    const bool thorough = tier == "thorough";
    p.big_keys = thorough;
    if (prop == "C02") {
        p.judge_point = true;
        p.w_remove_all_reinsert = 1;
        p.max_ops = thorough ? 3000 : 400;
    } else if (prop == "C03") {
        p.judge_scan = true;
        p.w_scan = 14;
        p.w_get = 0;
        p.w_full = 0;
    } else if (prop == "C05") {
        p.judge_phantom = true;
        p.w_phantom = 12;
        p.w_get = 0;
        p.w_full = 0;
    } else if (prop == "C08") {
        p.judge_full = true;
        p.w_full = 4;
        p.w_bulk_put = 2;
        p.w_bulk_remove = 2;
    } else if (prop == "C10") {
        p.judge_iscan = true;
        p.judge_early_abort = true;
        p.w_iscan = 10;
        p.w_cursor_mix = 4;
        p.w_get = 0;
        p.w_full = 0;
    } else if (prop == "C12") {
        p.judge_nodeinfo = true;
        p.w_put = 8;
        p.w_get = 0;
        p.w_full = 0;
        p.max_ops = 200;
        p.bulk_max = 120;
    } else if (prop == "C13") {
        p.judge_storage = true;
        p.judge_point = true;
        p.judge_scan = true;
        p.multi_storage = true;
        p.w_ddl = 6;
        p.w_scan = 2;
        p.w_full = 2;
        p.bulk_max = 40;
    } else if (prop == "C15") {
        p.judge_value = true;
        p.varied_values = true;
        p.inline_values = true;
        p.huge_values = thorough;
        p.w_value_rt = 10;
        p.w_bulk_put = 0;
        p.w_bulk_remove = 0;
        p.max_ops = 120;
    } else if (prop == "C11" || prop == "C16") {
        // allocation-balance / cycle programs: every kind of operation that allocates, retires or fails after allocating
        p.judge_point = true;
        p.multi_storage = true;
        p.varied_values = true;
        p.inline_values = true;
        p.w_put = 6;
        p.w_put_unique = 2;
        p.w_remove = 4;
        p.w_get = 1;
        p.w_scan = 1;
        p.w_iscan = 2;
        p.w_ddl = 3;
        p.w_bulk_put = 2;
        p.w_bulk_remove = 2;
        p.w_reenter = 1;
        p.w_full = 0;
        p.max_ops = 120;
        p.bulk_max = 200;
    } else if (prop == "C20") {
        p.judge_mem = true;
        p.varied_values = true;
        p.inline_values = true;
        p.w_mem = 5;
        p.w_get = 0;
        p.w_full = 0;
    }
    return p;
}

inline const char* ep_name(scan_endpoint e) {
    switch (e) {
        case scan_endpoint::EXCLUSIVE: return "EX";
        case scan_endpoint::INCLUSIVE: return "IN";
        default: return "INF";
    }
}

// model interval filter
inline bool in_interval(const std::string& k, const std::string& l, scan_endpoint le, const std::string& r,
                        scan_endpoint re) {
    if (le != scan_endpoint::INF) {
        int c = k.compare(l);
        if (c < 0 || (c == 0 && le == scan_endpoint::EXCLUSIVE)) { return false; }
    }
    if (re != scan_endpoint::INF) {
        int c = k.compare(r);
        if (c > 0 || (c == 0 && re == scan_endpoint::EXCLUSIVE)) { return false; }
    }
    return true;
}

// the documented invalid-range predicate (kvs.h, scan)
inline bool doc_bad_range(const std::string& l, scan_endpoint le, const std::string& r, scan_endpoint re) {
    const bool linf = le == scan_endpoint::INF;
    const bool rinf = re == scan_endpoint::INF;
    if (!linf && !rinf && r < l) { return true; }
    if (!linf && !rinf && l == r && (le == scan_endpoint::EXCLUSIVE || re == scan_endpoint::EXCLUSIVE)) { return true; }
    if (r.empty() && re == scan_endpoint::EXCLUSIVE) { return true; }
    return false;
}

class Interp {
public:
    Interp(const Profile& pf, Chooser& c, vf::Stats& st, bool record)
        : pf_(pf), c_(c), st_(st), record_(record) {
        kopt_.allow_big = pf.big_keys;
    }

    // ---- program log -------------------------------------------------------------------------
    std::vector<std::string> log;
    bool trace{false};
    bool leave_session_open{false}; // C11/C16: the program ends with its session still open
    void note(const std::string& s) {
        if (trace) { std::fprintf(stderr, "TRACE %s\n", s.c_str()); }
        if (log.size() < 4000) { log.push_back(s); }
    }
    std::string program_text(std::size_t max_lines = 60) const {
        std::string o;
        std::size_t start = log.size() > max_lines ? log.size() - max_lines : 0;
        if (start != 0) { o += "... (" + std::to_string(start) + " earlier ops)\n"; }
        for (std::size_t i = start; i < log.size(); ++i) { o += log[i] + "\n"; }
        return o;
    }
    [[noreturn]] void fail(const std::string& sig, const std::string& msg) {
        throw Fail{sig, msg + "\n--- program ---\n" + program_text()};
    }

    // ---- state ---------------------------------------------------------------------------------
    std::map<std::string, MStore> model; // storage name -> contents
    Token token{nullptr};
    std::uint32_t next_id{1};
    std::set<std::string> classes; // structural classes seen in this case
    bool nontrivial{false};
    std::uint64_t sub_evals{0};

    // ---- helpers -------------------------------------------------------------------------------
    void ensure_session() {
        if (token == nullptr) {
            if (enter(token) != status::OK) { fail("harness", "enter failed"); }
        }
    }
    void end_session() {
        if (token != nullptr) {
            leave(token);
            token = nullptr;
        }
    }
    std::string pick_storage(bool allow_unknown) {
        if (model.empty()) { return "s"; }
        if (allow_unknown && c_.chance(1, 24)) { return "nosuch" + gen_tail_name(); }
        return vf::nth_key(model, c_.range(0, 255));
    }
    std::string gen_tail_name() { return vf::gen_tail(c_, 3); }
    std::string gen_storage_name() {
        switch (c_.range(0, 5)) {
            case 0: return "";
            case 1: return "t" + gen_tail_name();
            case 2: return std::string("aaaaaaaa") + gen_tail_name();
            case 3: return std::string(8, '\0') + gen_tail_name();
            case 4: return vf::gen_fresh_key(c_, kopt_);
            default: return model.empty() ? "s" : vf::derive_key(c_, vf::nth_key(model, c_.range(0, 255)));
        }
    }
    tree_instance* ti_of(const std::string& name) {
        tree_instance* ti{};
        if (find_storage(name, &ti) != status::OK) { return nullptr; }
        return ti;
    }
    static std::string st_name(status s) { return std::string(to_string_view(s)); }

    MVal gen_value() {
        MVal v;
        v.id = next_id++;
        if (pf_.inline_values && (inline_heavy_ ? c_.chance(5, 6) : c_.chance(1, 6))) {
            v.inl = true;
            // user-space pointer range only: the two top bits are reserved by the library
            v.word = (static_cast<std::uintptr_t>(v.id) * 0x9E3779B97F4A7C15ULL) & 0x00007fffffffffffULL;
            return v;
        }
        std::size_t len = 0;
        if (pf_.varied_values) {
            len = vf::gen_value_len(c_, pf_.huge_values);
            v.align = vf::gen_align(c_);
        } else {
            len = 1 + (v.id % 13);
            v.align = 1;
        }
        v.bytes = vf::value_bytes(v.id, len);
        return v;
    }

    // ---- raw library calls -----------------------------------------------------------------------
    struct PutOut {
        status st;
        void* created{nullptr};
        inserted_node_info info{nullptr, nullptr};
        node_version64* legacy{nullptr};
    };
    PutOut lib_put(const std::string& name, const std::string& key, const MVal& v, bool unique, int info_mode,
                   bool want_created) {
        ensure_session();
        PutOut o;
        if (v.inl) {
            std::uintptr_t w = v.word;
            std::uintptr_t* created = nullptr;
            if (info_mode == 1) {
                o.st = put<std::uintptr_t>(token, name, key, &w, sizeof(w), want_created ? &created : nullptr,
                                           static_cast<value_align_type>(alignof(std::uintptr_t)), unique, &o.info);
            } else if (info_mode == 2) {
                o.st = put<std::uintptr_t>(token, name, key, &w, sizeof(w), want_created ? &created : nullptr,
                                           static_cast<value_align_type>(alignof(std::uintptr_t)), unique, &o.legacy);
            } else {
                o.st = put<std::uintptr_t>(token, name, key, &w, sizeof(w), want_created ? &created : nullptr,
                                           static_cast<value_align_type>(alignof(std::uintptr_t)), unique,
                                           static_cast<inserted_node_info*>(nullptr));
            }
            o.created = created;
            return o;
        }
        char dummy = 0;
        char* src = v.bytes.empty() ? &dummy : const_cast<char*>(v.bytes.data());
        char* created = nullptr;
        auto al = static_cast<value_align_type>(v.align);
        if (info_mode == 1) {
            o.st = put<char>(token, name, key, src, v.bytes.size(), want_created ? &created : nullptr, al, unique, &o.info);
        } else if (info_mode == 2) {
            o.st = put<char>(token, name, key, src, v.bytes.size(), want_created ? &created : nullptr, al, unique,
                             &o.legacy);
        } else {
            o.st = put<char>(token, name, key, src, v.bytes.size(), want_created ? &created : nullptr, al, unique,
                             static_cast<inserted_node_info*>(nullptr));
        }
        o.created = created;
        return o;
    }

    // compare a value observed through a read path with the model value
    void check_value(const char* where, const std::string& key, const MVal& mv, const void* ptr, std::size_t len,
                     bool have_len) {
        ++st_.checks;
        if (mv.inl) {
            if (reinterpret_cast<std::uintptr_t>(ptr) != mv.word) {
                fail("value_mismatch", std::string(where) + ": inline value of key \"" + show(key) + "\" differs");
            }
            if (have_len && len != sizeof(std::uintptr_t)) {
                fail("value_mismatch", std::string(where) + ": inline value length " + std::to_string(len));
            }
            return;
        }
        if (ptr == nullptr) { fail("null_value", std::string(where) + ": null value pointer for key \"" + show(key) + "\""); }
        if (have_len && len != mv.bytes.size()) {
            fail("value_mismatch", std::string(where) + ": key \"" + show(key) + "\" length " + std::to_string(len) +
                                           " expected " + std::to_string(mv.bytes.size()));
        }
        if (std::memcmp(ptr, mv.bytes.data(), mv.bytes.size()) != 0) {
            fail("value_mismatch", std::string(where) + ": key \"" + show(key) + "\" bytes differ from the last put");
        }
        if (pf_.judge_value) {
            std::size_t al = mv.align;
            if (reinterpret_cast<std::uintptr_t>(ptr) % al != 0) {
                fail("value_alignment", std::string(where) + ": key \"" + show(key) + "\" address not aligned to " +
                                                std::to_string(al));
            }
            if (mv.created != nullptr && mv.created != ptr) {
                fail("created_value_ptr", std::string(where) + ": created_value_ptr differs from the pointer read back");
            }
        }
    }

    // ---- ops -------------------------------------------------------------------------------------
    void op_put(bool unique) {
        std::string name = pick_storage(pf_.judge_storage);
        bool known_storage = model.count(name) != 0;
        static const MStore empty_store;
        const MStore& ms = known_storage ? model[name] : empty_store;
        std::string key = vf::gen_key(c_, ms, kopt_);
        MVal v = gen_value();
        int info_mode = pf_.judge_nodeinfo ? static_cast<int>(c_.weighted({0, 3, 1})) : 0;
        bool want_created = pf_.judge_value ? c_.chance(2, 3) : false;
        do_put(name, key, v, unique, info_mode, want_created);
    }

    void do_put(const std::string& name, const std::string& key, MVal v, bool unique, int info_mode, bool want_created) {
        if (pf_.judge_iscan) { want_created = true; }
        bool known_storage = model.count(name) != 0;
        note(std::string(unique ? "put_unique" : "put") + "(" + show(name) + ", \"" + show(key) + "\", id=" +
             std::to_string(v.id) + (v.inl ? " inline" : " len=" + std::to_string(v.bytes.size()) + " align=" +
                                                                 std::to_string(v.align)) +
             (info_mode == 1 ? " info" : info_mode == 2 ? " legacy_info" : "") + ")");
        std::map<node_version64*, node_version64_body> before;
        tree_instance* ti = nullptr;
        if (info_mode != 0 && known_storage) {
            ti = ti_of(name);
            vf::WalkOut w = vf::walk(ti);
            if (!w.ok) { fail("walker", "before put: " + w.err); }
            before = w.border_versions;
        }
        PutOut o = lib_put(name, key, v, unique, info_mode, want_created);
        if (!known_storage) {
            if (pf_.judge_storage && o.st != status::WARN_STORAGE_NOT_EXIST) {
                fail("storage_status", "put on unknown storage returned " + st_name(o.st));
            }
            return;
        }
        MStore& ms = model[name];
        bool exists = ms.count(key) != 0;
        status expect = (unique && exists) ? status::WARN_UNIQUE_RESTRICTION : status::OK;
        ++st_.checks;
        if (judge_point_ops() && o.st != expect) {
            fail("put_status", "put returned " + st_name(o.st) + " expected " + st_name(expect));
        }
        if (o.st != status::OK && o.st != status::WARN_UNIQUE_RESTRICTION) {
            fail("put_status", "put returned unexpected status " + st_name(o.st));
        }
        bool inserted = o.st == status::OK && !exists;
        if (o.st == status::OK) {
            if (want_created && !v.inl) { values_by_id_[v.id] = {v.bytes, o.created}; }
            if (want_created) {
                v.created = o.created;
                if (pf_.judge_value && !v.inl) {
                    if (o.created == nullptr) { fail("created_value_ptr", "created_value_ptr not filled"); }
                }
            }
            if (key.size() > 8) { classes.insert("new_layer_key"); }
            ms[key] = v;
        }
        if (info_mode != 0) { judge_nodeinfo(ti, before, o, info_mode, inserted, o.st); }
    }

    bool judge_point_ops() const { return pf_.judge_point; }

    void judge_nodeinfo(tree_instance* ti, const std::map<node_version64*, node_version64_body>& before, const PutOut& o,
                        int info_mode, bool inserted, status st) {
        vf::WalkOut w = vf::walk(ti);
        if (!w.ok) { fail("walker", "after put: " + w.err); }
        const auto& after = w.border_versions;
        ++sub_evals;
        std::vector<node_version64*> changed;
        for (auto& [p, v] : before) {
            auto it = after.find(p);
            if (it != after.end() && it->second != v) { changed.push_back(p); }
        }
        std::vector<node_version64*> created;
        for (auto& [p, v] : after) {
            if (before.find(p) == before.end()) { created.push_back(p); }
        }
        node_version64* mod = info_mode == 1 ? o.info.modified_nvp : o.legacy;
        node_version64* cre = info_mode == 1 ? o.info.created_nvp : nullptr;
        if (st != status::OK) { return; }
        if (!inserted) {
            // overwrite: no node version changes; created_nvp null
            if (!changed.empty() || !created.empty()) {
                fail("nodeinfo_overwrite", "overwrite changed " + std::to_string(changed.size()) + " border versions, created " +
                                                   std::to_string(created.size()));
            }
            if (info_mode == 1 && cre != nullptr) { fail("nodeinfo_overwrite", "overwrite reported created_nvp"); }
            return;
        }
        if (mod == nullptr) { fail("nodeinfo_missing", "insert did not report a modified node"); }
        // every pre-existing border whose version changed must be the reported modified node
        for (auto* p : changed) {
            if (p != mod) {
                fail("nodeinfo_unreported_change",
                     "border version changed but was not reported (changed=" + std::to_string(changed.size()) + ")");
            }
        }
        // the modified node itself: either pre-existing and changed, or newly created (new layer / new root)
        bool mod_pre = before.find(mod) != before.end();
        bool mod_new = std::find(created.begin(), created.end(), mod) != created.end();
        if (mod_pre) {
            if (changed.empty()) { fail("nodeinfo_modified_unchanged", "reported modified node kept its version"); }
        } else if (!mod_new) {
            fail("nodeinfo_bogus", "reported modified node is not a border of this storage");
        }
        // created node: a split created exactly one sibling in the modified node's layer, whose prev is the modified node
        border_node* sibling = nullptr;
        for (auto* b : w.borders) {
            if (b->get_version_ptr() == mod) {
                border_node* nx = b->get_next();
                if (nx != nullptr && before.find(nx->get_version_ptr()) == before.end() && mod_pre) { sibling = nx; }
            }
        }
        if (info_mode == 1) {
            if (sibling != nullptr) {
                classes.insert("split");
                nontrivial = true;
                if (cre != sibling->get_version_ptr()) { fail("nodeinfo_created", "split sibling not reported as created_nvp"); }
            } else if (cre != nullptr) {
                fail("nodeinfo_created", "created_nvp reported but the modified border has no new right sibling");
            }
        } else if (sibling != nullptr) {
            classes.insert("split");
            nontrivial = true;
        }
        if (mod_new && !mod_pre) {
            classes.insert("new_layer_insert");
            nontrivial = true;
        }
    }

    void op_get() {
        std::string name = pick_storage(pf_.judge_storage);
        bool known_storage = model.count(name) != 0;
        static const MStore empty_store;
        const MStore& ms = known_storage ? model[name] : empty_store;
        std::string key = vf::gen_key(c_, ms, kopt_);
        do_get(name, key);
    }
    void do_get(const std::string& name, const std::string& key) {
        ensure_session();
        bool known_storage = model.count(name) != 0;
        note("get(" + show(name) + ", \"" + show(key) + "\")");
        std::pair<char*, std::size_t> out{nullptr, 0};
        std::pair<node_version64_body, node_version64*> cv{};
        status rc = get<char>(name, key, out, &cv);
        ++st_.checks;
        if (!known_storage) {
            if (pf_.judge_storage && rc != status::WARN_STORAGE_NOT_EXIST) {
                fail("storage_status", "get on unknown storage returned " + st_name(rc));
            }
            return;
        }
        const MStore& ms = model[name];
        auto it = ms.find(key);
        if (it == ms.end()) {
            if (rc != status::WARN_NOT_EXIST) { fail("get_status", "get of absent key returned " + st_name(rc)); }
            if (cv.second == nullptr) { fail("get_checked_version", "WARN_NOT_EXIST without checked version"); }
        } else {
            if (rc != status::OK) { fail("get_status", "get of present key returned " + st_name(rc)); }
            check_value("get", key, it->second, out.first, out.second, true);
        }
    }

    void op_remove() {
        std::string name = pick_storage(pf_.judge_storage);
        bool known_storage = model.count(name) != 0;
        static const MStore empty_store;
        const MStore& ms = known_storage ? model[name] : empty_store;
        std::string key = vf::gen_key(c_, ms, kopt_);
        do_remove(name, key);
    }
    void do_remove(const std::string& name, const std::string& key) {
        ensure_session();
        bool known_storage = model.count(name) != 0;
        note("remove(" + show(name) + ", \"" + show(key) + "\")");
        status rc = remove(token, name, key);
        ++st_.checks;
        if (!known_storage) {
            if (pf_.judge_storage && rc != status::WARN_STORAGE_NOT_EXIST) {
                fail("storage_status", "remove on unknown storage returned " + st_name(rc));
            }
            return;
        }
        MStore& ms = model[name];
        bool exists = ms.count(key) != 0;
        status expect = exists ? status::OK : status::OK_NOT_FOUND;
        if (rc != expect) { fail("remove_status", "remove returned " + st_name(rc) + " expected " + st_name(expect)); }
        ms.erase(key);
    }

    // bulk insert / remove with a generated pattern and order
    std::vector<std::string> bulk_keys(const MStore& ms) {
        std::string prefix;
        switch (c_.range(0, 3)) {
            case 0: prefix = ""; break;
            case 1: prefix = vf::slice_pool()[c_.range(0, 5)]; break;
            case 2: prefix = ms.empty() ? "" : vf::nth_key(ms, c_.range(0, 65535)); break;
            default: prefix = vf::gen_fresh_key(c_, kopt_);
        }
        if (prefix.size() > 40) { prefix.resize(40); }
        if (vf::g_decoder >= 2 && c_.chance(1, 4)) {
            // length family: prefix + pad * k for k = 0..K (keys that differ only in length; with pad 0x00 all of one 8-byte group
            // share the slice 0 and differ in the length byte alone; k = 8 is the full slice, k > 8 a link), followed by enough
            // ordinary keys to split the border right behind / inside the family
            static const char pads[] = {'\0', '\0', '\xff', 'a'};
            const char pad = pads[c_.range(0, 3)];
            const unsigned top = 8 + c_.range(0, 9);
            std::vector<std::string> ks;
            for (unsigned k = 0; k <= top; ++k) { ks.push_back(prefix + std::string(k, pad)); }
            const unsigned extra = 6 + c_.range(0, 40);
            const unsigned stride = 1 + c_.range(0, 6);
            for (unsigned i = 0; i < extra; ++i) {
                std::string k = prefix;
                k.push_back(static_cast<char>(1 + ((i * stride) >> 8U)));
                k.push_back(static_cast<char>((i * stride) & 0xffU));
                ks.push_back(k);
            }
            classes.insert("bulk_length_family");
            apply_order(ks);
            return ks;
        }
        unsigned count = 16 + c_.range(0, static_cast<std::uint32_t>(pf_.bulk_max > 16 ? pf_.bulk_max - 16 : 0));
        unsigned width = c_.range(1, 3);
        unsigned stride = 1 + c_.range(0, 6);
        std::vector<std::string> ks;
        ks.reserve(count);
        for (unsigned i = 0; i < count; ++i) {
            unsigned x = i * stride;
            std::string k = prefix;
            for (unsigned b = width; b-- > 0;) { k.push_back(static_cast<char>((x >> (8 * b)) & 0xffU)); }
            ks.push_back(k);
        }
        apply_order(ks);
        return ks;
    }
    void apply_order(std::vector<std::string>& ks) {
        switch (c_.range(0, 2)) {
            case 0: break;
            case 1: std::reverse(ks.begin(), ks.end()); break;
            default: {
                std::uint32_t s = c_.range(1, 65535);
                for (std::size_t i = ks.size(); i > 1; --i) {
                    s = s * 1103515245U + 12345U;
                    std::swap(ks[i - 1], ks[(s >> 8U) % i]);
                }
            }
        }
    }
    void op_bulk_put() {
        std::string name = pick_storage(false);
        if (model.count(name) == 0) { return; }
        auto ks = bulk_keys(model[name]);
        note("bulk_put(" + show(name) + ", n=" + std::to_string(ks.size()) + ", first=\"" + show(ks.front()) + "\")");
        std::size_t saved = log.size();
        for (auto& k : ks) {
            MVal v = gen_bulk_value();
            do_put(name, k, v, false, 0, false);
            log.resize(saved);
        }
        classes.insert("bulk");
    }
    bool inline_heavy_{false}; // this program stores mostly pointer-typed (inline) values, bulk loads included
    MVal gen_bulk_value() {
        MVal v;
        v.id = next_id++;
        if (inline_heavy_) {
            v.inl = true;
            v.word = (static_cast<std::uintptr_t>(v.id) * 0x9E3779B97F4A7C15ULL) & 0x00007fffffffffffULL;
            return v;
        }
        v.bytes = vf::value_bytes(v.id, 1 + v.id % 5);
        v.align = 1;
        return v;
    }
    void op_bulk_remove() {
        std::string name = pick_storage(false);
        if (model.count(name) == 0) { return; }
        MStore& ms = model[name];
        if (ms.empty()) { return; }
        // a contiguous run (or everything) of the stored keys, in a generated order
        std::vector<std::string> ks;
        std::size_t n = ms.size();
        std::size_t from = 0;
        std::size_t cnt = n;
        if (!c_.chance(1, 3)) {
            from = c_.range(0, static_cast<std::uint32_t>(n - 1));
            cnt = 1 + c_.range(0, static_cast<std::uint32_t>(std::min<std::size_t>(n - from, 400) - 1));
        }
        auto it = ms.begin();
        std::advance(it, static_cast<long>(from));
        for (std::size_t i = 0; i < cnt && it != ms.end(); ++i, ++it) { ks.push_back(it->first); }
        apply_order(ks);
        note("bulk_remove(" + show(name) + ", n=" + std::to_string(ks.size()) + " of " + std::to_string(n) + ")");
        std::size_t saved = log.size();
        for (auto& k : ks) {
            do_remove(name, k);
            log.resize(saved);
        }
        classes.insert(cnt == n ? "remove_all" : "bulk_remove");
    }

    // C02: remove every key, then re-insert in a generated order: must behave like a fresh storage
    void op_remove_all_reinsert() {
        std::string name = pick_storage(false);
        if (model.count(name) == 0) { return; }
        MStore copy = model[name];
        if (copy.empty()) { return; }
        std::vector<std::string> ks;
        for (auto& [k, v] : copy) { ks.push_back(k); }
        apply_order(ks);
        note("remove_all_reinsert(" + show(name) + ", n=" + std::to_string(ks.size()) + ")");
        std::size_t saved = log.size();
        for (auto& k : ks) {
            do_remove(name, k);
            log.resize(saved);
        }
        // the emptied storage answers like a fresh one
        for (auto& k : ks) {
            do_get(name, k);
            log.resize(saved);
        }
        apply_order(ks);
        for (auto& k : ks) {
            do_put(name, k, copy[k], true, 0, false);
            log.resize(saved);
        }
        for (auto& k : ks) {
            do_get(name, k);
            log.resize(saved);
        }
        classes.insert("remove_all_reinsert");
        nontrivial = true;
    }

    // ---- scans -----------------------------------------------------------------------------------
    struct ScanArgs {
        std::string l, r;
        scan_endpoint le{scan_endpoint::INF}, re{scan_endpoint::INF};
        std::size_t max{0};
        bool r2l{false};
        bool null_l{false}, null_r{false};
    };
    std::string gen_endpoint_key(const MStore& ms) {
        switch (c_.weighted({3, 4, 4, 2, 1})) {
            case 0: return vf::gen_fresh_key(c_, kopt_);
            case 1: return ms.empty() ? std::string() : vf::nth_key(ms, c_.range(0, 65535));
            case 2: return ms.empty() ? std::string("a") : vf::derive_key(c_, vf::nth_key(ms, c_.range(0, 65535)));
            case 3: {
                if (ms.empty()) { return ""; }
                std::string k = vf::nth_key(ms, c_.range(0, 65535));
                k.resize(c_.range(0, static_cast<std::uint32_t>(k.size())));
                return k;
            }
            default: return "";
        }
    }
    static scan_endpoint ep_of(unsigned x) {
        return x == 0 ? scan_endpoint::INCLUSIVE : x == 1 ? scan_endpoint::EXCLUSIVE : scan_endpoint::INF;
    }
    ScanArgs gen_scan_args(const MStore& ms, bool valid_only, bool allow_r2l) {
        for (int attempt = 0;; ++attempt) {
            ScanArgs a;
            a.l = gen_endpoint_key(ms);
            a.r = gen_endpoint_key(ms);
            a.le = ep_of(static_cast<unsigned>(c_.weighted({4, 3, 2})));
            a.re = ep_of(static_cast<unsigned>(c_.weighted({4, 3, 2})));
            if (c_.chance(3, 4) && a.le != scan_endpoint::INF && a.re != scan_endpoint::INF && a.r < a.l) { std::swap(a.l, a.r); }
            std::size_t n = ms.size();
            switch (c_.weighted({6, 2, 1, 1, 1, 1})) {
                case 0: a.max = 0; break;
                case 1: a.max = 1; break;
                case 2: a.max = 2; break;
                case 3: a.max = n > 1 ? n - 1 : 1; break;
                case 4: a.max = n; break;
                default: a.max = n + 1;
            }
            if (allow_r2l && c_.chance(1, 6)) {
                a.r2l = true;
                if (c_.chance(7, 8)) {
                    a.re = scan_endpoint::INF;
                    a.max = 1;
                }
            }
            if (!valid_only && c_.chance(1, 40)) { a.null_l = true; }
            if (!valid_only && c_.chance(1, 40)) { a.null_r = true; }
            if (!valid_only) { return a; }
            bool bad = doc_bad_range(a.l, a.le, a.r, a.re) || (a.r2l && (a.re != scan_endpoint::INF || a.max != 1));
            if (!bad) { return a; }
            if (attempt > 6) {
                a.le = scan_endpoint::INF;
                a.re = scan_endpoint::INF;
                a.r2l = false;
                return a;
            }
        }
    }
    static std::string args_text(const ScanArgs& a) {
        return std::string("l=") + (a.null_l ? "<null," + std::to_string(a.l.size()) + ">" : "\"" + show(a.l) + "\"") + "/" +
               ep_name(a.le) + " r=" + (a.null_r ? "<null," + std::to_string(a.r.size()) + ">" : "\"" + show(a.r) + "\"") + "/" +
               ep_name(a.re) + " max=" + std::to_string(a.max) + (a.r2l ? " r2l" : "");
    }
    static std::string_view sv_of(const std::string& s, bool null_data) {
        if (null_data) { return std::string_view{static_cast<const char*>(nullptr), s.empty() ? 1 : s.size()}; } // NOLINT
        return std::string_view{s};
    }
    std::vector<std::string> model_interval(const MStore& ms, const ScanArgs& a) {
        std::vector<std::string> ks;
        for (auto& [k, v] : ms) {
            if (in_interval(k, a.l, a.le, a.r, a.re)) { ks.push_back(k); }
        }
        return ks;
    }

    using NVV = std::vector<std::pair<node_version64_body, node_version64*>>;

    // run scan, judge against the model when requested; returns the keys produced
    std::vector<std::string> do_scan(const std::string& name, const ScanArgs& a, NVV* nvv, bool judge, bool* ok_out = nullptr) {
        ensure_session();
        note("scan(" + show(name) + ", " + args_text(a) + (nvv != nullptr ? " nvv" : "") + ")");
        std::vector<std::tuple<std::string, char*, std::size_t>> tl;
        status rc = scan<char>(name, sv_of(a.l, a.null_l), a.le, sv_of(a.r, a.null_r), a.re, tl, nvv, a.max, a.r2l);
        bool known_storage = model.count(name) != 0;
        bool bad = a.null_l || a.null_r || doc_bad_range(a.l, a.le, a.r, a.re) ||
                   (a.r2l && (a.re != scan_endpoint::INF || a.max != 1));
        ++st_.checks;
        std::vector<std::string> got;
        if (ok_out != nullptr) { *ok_out = false; }
        if (!known_storage) {
            if (judge && rc != status::WARN_STORAGE_NOT_EXIST) { fail("scan_status", "scan of unknown storage returned " + st_name(rc)); }
            return got;
        }
        if (bad) {
            if (judge && rc != status::ERR_BAD_USAGE) {
                fail("scan_bad_usage", "documented invalid arguments, scan returned " + st_name(rc));
            }
            classes.insert("bad_usage");
            return got;
        }
        if (rc == status::ERR_BAD_USAGE) {
            if (judge) { fail("scan_bad_usage", "valid arguments rejected with ERR_BAD_USAGE"); }
            return got;
        }
        const MStore& ms = model[name];
        if (rc != status::OK && !(rc == status::OK_ROOT_IS_NULL && ms.empty())) {
            fail("scan_status", "scan returned " + st_name(rc));
        }
        if (ok_out != nullptr) { *ok_out = true; }
        for (auto& t : tl) { got.push_back(std::get<0>(t)); }
        if (!judge) { return got; }
        std::vector<std::string> exp = model_interval(ms, a);
        bool truncated = false;
        if (a.r2l) {
            if (!exp.empty()) { exp = {exp.back()}; }
        } else if (a.max != 0 && exp.size() > a.max) {
            exp.resize(a.max);
            truncated = true;
        }
        if (got != exp) {
            std::string m = "scan result differs from the model: got " + std::to_string(got.size()) + " keys, expected " +
                            std::to_string(exp.size());
            for (std::size_t i = 0; i < std::max(got.size(), exp.size()); ++i) {
                std::string g = i < got.size() ? got[i] : "<none>";
                std::string e = i < exp.size() ? exp[i] : "<none>";
                if (g != e) {
                    m += "; first difference at #" + std::to_string(i) + ": got \"" + show(g) + "\" expected \"" + show(e) + "\"";
                    break;
                }
            }
            std::string sig = "scan_result";
            if (a.le == scan_endpoint::INF && !a.l.empty()) {
                // neutralisation test for the "INF left endpoint uses its key" class
                ScanArgs b = a;
                b.l.clear();
                std::vector<std::tuple<std::string, char*, std::size_t>> tl2;
                status rc2 = scan<char>(name, b.l, b.le, sv_of(b.r, false), b.re, tl2, nullptr, b.max, b.r2l);
                std::vector<std::string> got2;
                for (auto& t : tl2) { got2.push_back(std::get<0>(t)); }
                if (rc2 == status::OK && got2 == exp) { sig = "scan_inf_left_uses_key"; }
            }
            fail(sig, m);
        }
        for (auto& t : tl) { check_value("scan", std::get<0>(t), ms.at(std::get<0>(t)), std::get<1>(t), std::get<2>(t), true); }
        // non-triviality (C03)
        if (!got.empty()) {
            bool interesting = truncated || a.r2l;
            auto is_prefix_of_stored = [&](const std::string& e) {
                auto it = ms.lower_bound(e);
                return !e.empty() && it != ms.end() && it->first.size() > e.size() && it->first.compare(0, e.size(), e) == 0;
            };
            if (a.le != scan_endpoint::INF && ((!a.l.empty() && a.l.size() % 8 == 0) || is_prefix_of_stored(a.l))) { interesting = true; }
            if (a.re != scan_endpoint::INF && ((!a.r.empty() && a.r.size() % 8 == 0) || is_prefix_of_stored(a.r))) { interesting = true; }
            for (auto& k : got) {
                if (k.size() > 8) { interesting = true; }
            }
            if (interesting && pf_.judge_scan) {
                nontrivial = true;
                classes.insert("scan_interesting");
            }
            if (truncated) { classes.insert("scan_truncated"); }
            if (a.r2l) { classes.insert("scan_r2l"); }
            if (a.l.size() > 255 || a.r.size() > 255) { classes.insert("endpoint_gt_255"); }
        }
        return got;
    }

    void op_scan() {
        std::string name = pick_storage(true);
        static const MStore empty_store;
        const MStore& ms = model.count(name) != 0 ? model[name] : empty_store;
        ScanArgs a = gen_scan_args(ms, false, true);
        NVV nvv;
        bool with_nvv = c_.chance(1, 3);
        ++sub_evals;
        do_scan(name, a, with_nvv ? &nvv : nullptr, pf_.judge_scan || pf_.judge_storage);
    }

    // ---- iscan -----------------------------------------------------------------------------------
    struct CursorOut {
        status open_status{status::OK};
        std::vector<std::string> keys;
        bool ended{false}; // reached OK_SCAN_END
    };
    // run a cursor over the interval, consuming at most `limit` entries (0 = all)
    CursorOut do_iscan(const std::string& name, const ScanArgs& a, bool early_abort, std::size_t limit, NVV* nvv, bool judge) {
        ensure_session();
        note("iscan(" + show(name) + ", " + args_text(a) + (early_abort ? " early_abort" : "") +
             (limit != 0 ? " stop_after=" + std::to_string(limit) : "") + (nvv != nullptr ? " cb" : "") + ")");
        CursorOut out;
        iscan_context* ctx = nullptr;
        void* val = nullptr;
        std::function<bool(node_version64*, node_version64_body)> cb = [nvv](node_version64* p, node_version64_body v) {
            if (nvv != nullptr) { nvv->emplace_back(v, p); }
            return false;
        };
        status rc = iscan_open(name, sv_of(a.l, a.null_l), a.le, sv_of(a.r, a.null_r), a.re, a.r2l, early_abort, ctx, val, cb);
        out.open_status = rc;
        bool known_storage = model.count(name) != 0;
        bool bad = a.null_l || a.null_r || doc_bad_range(a.l, a.le, a.r, a.re);
        ++st_.checks;
        if (bad || !known_storage) {
            if (ctx != nullptr) {
                iscan_close(ctx);
                if (judge) { fail("iscan_status", "rejected iscan_open left a context"); }
            }
            if (judge) {
                if (bad && known_storage && rc != status::ERR_BAD_USAGE) { fail("iscan_bad_usage", "invalid arguments, iscan_open returned " + st_name(rc)); }
                if (!bad && rc != status::WARN_STORAGE_NOT_EXIST) { fail("iscan_status", "unknown storage, iscan_open returned " + st_name(rc)); }
                if (bad && !known_storage && rc != status::ERR_BAD_USAGE && rc != status::WARN_STORAGE_NOT_EXIST) {
                    fail("iscan_status", "iscan_open returned " + st_name(rc));
                }
            }
            classes.insert("bad_usage");
            return out;
        }
        if (rc == status::ERR_BAD_USAGE) {
            if (ctx != nullptr) { iscan_close(ctx); }
            if (judge) { fail("iscan_bad_usage", "valid arguments rejected with ERR_BAD_USAGE"); }
            return out;
        }
        const MStore& ms = model[name];
        std::vector<std::string> exp = model_interval(ms, a);
        if (a.r2l) { std::reverse(exp.begin(), exp.end()); }
        std::size_t n = 0;
        while (rc == status::OK) {
            if (ctx == nullptr) { fail("iscan_status", "OK without a context"); }
            std::string k = ctx->full_key();
            out.keys.push_back(k);
            if (judge) {
                if (n >= exp.size() || exp[n] != k) {
                    std::string e = n < exp.size() ? exp[n] : "<end>";
                    iscan_close(ctx);
                    std::string sig = "iscan_result";
                    if (a.r2l && missing_is_ff_link_class(ms, exp, out.keys)) { sig = "iscan_reverse_ff_link"; }
                    fail(sig, "cursor entry #" + std::to_string(n) + " is \"" + show(k) + "\" expected \"" + show(e) + "\"");
                }
                check_value("iscan", k, ms.at(k), val, 0, false);
            }
            ++n;
            if (limit != 0 && n >= limit) { break; }
            rc = iscan_next(ctx, val, cb);
        }
        if (rc == status::OK_SCAN_END) {
            out.ended = true;
            if (judge && n != exp.size()) {
                iscan_close(ctx);
                std::string sig = "iscan_result";
                if (a.r2l && missing_is_ff_link_class(ms, exp, out.keys)) { sig = "iscan_reverse_ff_link"; }
                fail(sig, "cursor ended after " + std::to_string(n) + " entries, expected " + std::to_string(exp.size()) +
                                  " (next expected \"" + show(exp[n]) + "\")");
            }
        } else if (rc != status::OK) {
            iscan_close(ctx);
            fail("iscan_status", "cursor returned " + st_name(rc));
        }
        if (ctx != nullptr) { iscan_close(ctx); }
        if (judge && !out.keys.empty()) {
            bool multi_layer = false;
            for (auto& k : out.keys) {
                if (k.size() > 8) { multi_layer = true; }
            }
            if (multi_layer || out.keys.size() > 15) {
                nontrivial = true;
                classes.insert(a.r2l ? "iscan_reverse_multi" : "iscan_forward_multi");
            }
        }
        return out;
    }
    // signature predicate for the reverse-cursor FFx8 link class: every expected-but-missing key lies below a
    // link whose slice is FFx8 in layer >= 1, i.e. has FFx8 at some slice position >= 1 followed by more bytes
    static bool missing_is_ff_link_class(const MStore& /*ms*/, const std::vector<std::string>& exp, const std::vector<std::string>& got) {
        std::set<std::string> g(got.begin(), got.end());
        bool any = false;
        // only keys up to the point reached matter: compare as sets over the prefix of exp that should have been seen
        for (auto& k : exp) {
            if (g.count(k) != 0) { continue; }
            // key not produced (yet); accept as class member only if it contains an FFx8 slice at position >= 1 with a continuation
            bool member = false;
            for (std::size_t pos = 8; pos + 8 < k.size(); pos += 8) {
                if (k.compare(pos, 8, std::string(8, '\xff')) == 0) { member = true; }
            }
            if (member) {
                any = true;
            } else if (!got.empty() && k > got.back()) {
                // reverse order: keys greater than the last produced one should already have been produced
                return false;
            }
        }
        return any;
    }

    void op_iscan() {
        std::string name = pick_storage(true);
        static const MStore empty_store;
        const MStore& ms = model.count(name) != 0 ? model[name] : empty_store;
        ScanArgs a = gen_scan_args(ms, false, false);
        a.r2l = c_.flip();
        a.max = 0;
        bool ea = c_.chance(1, 4);
        std::size_t limit = c_.chance(1, 4) ? 1 + c_.range(0, 20) : 0;
        NVV nvv;
        ++sub_evals;
        do_iscan(name, a, ea, limit, c_.flip() ? &nvv : nullptr, pf_.judge_iscan);
    }

    // C10 sentence 2 at op granularity: a cursor with puts/removes between iscan_next calls.  Oracle: keys strictly
    // monotone and inside the interval; each produced (k,v) was the binding of k at some point since open; a key
    // present (unchanged) throughout and ahead of the cursor at open is never skipped; early_abort rule.
    void op_cursor_mix() {
        std::string name = pick_storage(false);
        if (model.count(name) == 0) { return; }
        ensure_session();
        MStore& ms = model[name];
        ScanArgs a = gen_scan_args(ms, true, false);
        a.r2l = c_.flip();
        a.max = 0;
        a.null_l = a.null_r = false;
        bool ea = c_.chance(1, 3);
        note("cursor_mix(" + show(name) + ", " + args_text(a) + (ea ? " early_abort" : "") + ")");
        root_replaced_ = false;
        ++sub_evals;
        iscan_context* ctx = nullptr;
        void* val = nullptr;
        status rc = iscan_open(name, a.l, a.le, a.r, a.re, a.r2l, ea, ctx, val);
        if (rc == status::ERR_BAD_USAGE) {
            if (ctx != nullptr) { iscan_close(ctx); }
            fail("iscan_bad_usage", "valid arguments rejected with ERR_BAD_USAGE");
        }
        // history of bindings since open: key -> set of value ids that were current at some point (0 = absent)
        std::map<std::string, std::set<std::uint32_t>> hist;
        auto snapshot = [&]() {
            for (auto& [k, v] : ms) { hist[k].insert(v.id); }
        };
        MStore at_open = ms;
        snapshot();
        std::set<std::string> touched; // keys inserted / removed / overwritten since open
        std::string last;
        bool have_last = false;
        std::size_t steps = 0;
        bool writer_hit_cursor_border = false;
        while (rc == status::OK && steps < 400) {
            std::string k = ctx->full_key();
            if (trace) { std::fprintf(stderr, "TRACE   cursor -> \"%s\"\n", show(k).c_str()); }
            ++st_.checks;
            if (!in_interval(k, a.l, a.le, a.r, a.re)) {
                iscan_close(ctx);
                fail("cursor_out_of_interval", "cursor produced \"" + show(k) + "\" outside the interval");
            }
            if (have_last && (a.r2l ? !(k < last) : !(last < k))) {
                iscan_close(ctx);
                fail("cursor_not_monotone", "cursor produced \"" + show(k) + "\" after \"" + show(last) + "\"");
            }
            // never skips a key present throughout: every untouched key of the interval strictly between last and k
            {
                auto lo = have_last ? last : std::string();
                for (auto& [mk, mv] : at_open) {
                    if (touched.count(mk) != 0 || !in_interval(mk, a.l, a.le, a.r, a.re)) { continue; }
                    bool between = a.r2l ? (mk > k && (!have_last || mk < last)) : (mk < k && (!have_last || mk > lo));
                    if (between) {
                        iscan_close(ctx);
                        std::string sig = skip_signature(mk);
                        if (a.r2l && sig == "cursor_skipped_key") {
                            bool member = false;
                            for (std::size_t pos = 8; pos + 8 < mk.size(); pos += 8) {
                                if (mk.compare(pos, 8, std::string(8, '\xff')) == 0) { member = true; }
                            }
                            if (member) { sig = "iscan_reverse_ff_link"; }
                        }
                        fail(sig, "cursor skipped \"" + show(mk) + "\" which was present throughout");
                    }
                }
            }
            // value was current at some instant since open: the pointer is the stored copy of one of the values that were
            // bound to k since the cursor was opened (identified by created_value_ptr), and its bytes are intact
            {
                auto hit = hist.find(k);
                bool okv = false;
                if (hit != hist.end()) {
                    for (auto id : hit->second) {
                        auto vit = values_by_id_.find(id);
                        if (vit == values_by_id_.end()) { continue; }
                        if (vit->second.second == val && val != nullptr &&
                            std::memcmp(val, vit->second.first.data(), vit->second.first.size()) == 0) {
                            okv = true;
                        }
                    }
                }
                if (!okv) {
                    iscan_close(ctx);
                    fail("cursor_value", "cursor value for \"" + show(k) + "\" was never the binding of that key");
                }
            }
            last = k;
            have_last = true;
            ++steps;
            // layers the cursor has stacked: the one of k and every one above it except layer 0 (for the open finding "layer
            // root replaced under the cursor": the cursor resumes an upper layer from its saved root as well)
            const std::size_t depth = k.empty() ? 0 : (k.size() - 1) / 8;
            std::vector<std::pair<std::string, base_node*>> layer_roots_before;
            if (depth >= 1) {
                vf::WalkOut w0 = vf::walk(ti_of(name));
                for (std::size_t d = 1; d <= depth; ++d) {
                    auto it = w0.layer_roots.find(k.substr(0, 8 * d));
                    if (it != w0.layer_roots.end()) { layer_roots_before.emplace_back(it->first, it->second); }
                }
            }
            // interleave 0..3 writes
            bool structural_change_in_cursor_border = false;
            unsigned nw = static_cast<unsigned>(c_.weighted({3, 4, 2, 1}));
            for (unsigned i = 0; i < nw; ++i) {
                std::string wk = c_.chance(2, 3) ? vf::derive_key(c_, k) : vf::gen_key(c_, ms, kopt_);
                border_node* cur_bn = border_of(name, k);
                std::uint64_t perm_before = cur_bn != nullptr ? cur_bn->get_permutation().get_body() : 0;
                node_version64_body ver_before = cur_bn != nullptr ? cur_bn->get_version() : node_version64_body{};
                bool exists = ms.count(wk) != 0;
                if (exists && c_.flip()) {
                    do_remove(name, wk);
                } else {
                    MVal v = gen_bulk_value();
                    do_put(name, wk, v, false, 0, false);
                }
                touched.insert(wk);
                snapshot();
                if (cur_bn != nullptr) {
                    border_node* now_bn = border_of(name, k);
                    if (now_bn == cur_bn &&
                        (cur_bn->get_permutation().get_body() != perm_before || cur_bn->get_version() != ver_before)) {
                        structural_change_in_cursor_border = true;
                    }
                    if (now_bn != cur_bn) { structural_change_in_cursor_border = false; /* node replaced: rule not judged */ }
                }
            }
            if (structural_change_in_cursor_border) { writer_hit_cursor_border = true; }
            for (auto& [lp, lr] : layer_roots_before) {
                node_version64_body rv = lr->get_version();
                bool replaced = (!rv.get_root() && !rv.get_deleted()) || (rv.get_deleted() && !rv.get_border());
                if (replaced) {
                    if (trace) { std::fprintf(stderr, "TRACE   root of layer \"%s\" replaced while the cursor is at \"%s\"\n", show(lp).c_str(), show(k).c_str()); }
                    // trigger of the open finding C10/cursor_layer_root_replaced_skip: the root of a next layer the cursor is
                    // in was split or collapsed.  Excluded by construction in 7 of 8 cases so the search continues behind it.
                    if (c_.range(0, 7) != 0) {
                        if (record_) { ++st_.excluded_by_construction; }
                        classes.insert("excluded_layer_root_replaced");
                        iscan_close(ctx);
                        return;
                    }
                    if (!root_replaced_ || lp.size() < root_replaced_prefix_.size()) { root_replaced_prefix_ = lp; }
                    root_replaced_ = true;
                    break;
                }
            }
            rc = iscan_next(ctx, val);
            if (ea && pf_.judge_early_abort) {
                ++st_.checks;
                if (structural_change_in_cursor_border && rc != status::WARN_CONCURRENT_OPERATIONS) {
                    iscan_close(ctx);
                    fail("early_abort_missed", "a key was inserted/removed in the border under the cursor but iscan_next returned " +
                                                       st_name(rc));
                }
            }
            if (rc == status::WARN_CONCURRENT_OPERATIONS) {
                if (!ea) {
                    iscan_close(ctx);
                    fail("iscan_status", "WARN_CONCURRENT_OPERATIONS without early_abort");
                }
                if (touched.empty()) {
                    iscan_close(ctx);
                    fail("early_abort_spurious", "WARN_CONCURRENT_OPERATIONS although nothing was written since the cursor was opened");
                }
                classes.insert("early_abort_fired");
                break;
            }
        }
        if (rc != status::OK && rc != status::OK_SCAN_END && rc != status::WARN_CONCURRENT_OPERATIONS) {
            if (ctx != nullptr) { iscan_close(ctx); }
            fail("iscan_status", "cursor returned " + st_name(rc));
        }
        if (rc == status::OK_SCAN_END) {
            // untouched keys beyond the last produced one must not exist
            for (auto& [mk, mv] : at_open) {
                if (touched.count(mk) != 0 || !in_interval(mk, a.l, a.le, a.r, a.re)) { continue; }
                bool beyond = !have_last || (a.r2l ? mk < last : mk > last);
                if (beyond) {
                    iscan_close(ctx);
                    std::string sig = skip_signature(mk);
                    if (a.r2l && sig == "cursor_skipped_key") {
                        for (std::size_t pos = 8; pos + 8 < mk.size(); pos += 8) {
                            if (mk.compare(pos, 8, std::string(8, '\xff')) == 0) { sig = "iscan_reverse_ff_link"; }
                        }
                    }
                    fail(sig, "cursor ended but \"" + show(mk) + "\" (present throughout) was never produced");
                }
            }
        }
        if (ctx != nullptr) { iscan_close(ctx); }
        if (steps > 1 && !touched.empty()) {
            classes.insert("cursor_mix");
            if (writer_hit_cursor_border || steps > 15) { nontrivial = true; }
        }
    }
    std::map<std::uint32_t, std::pair<std::string, const void*>> values_by_id_; // id -> (bytes, stored copy)
    bool root_replaced_{false};
    std::string root_replaced_prefix_;

    // open finding: after the root of the cursor's layer was replaced, keys of that layer are skipped
    std::string skip_signature(const std::string& missing) const {
        if (root_replaced_ && missing.size() > root_replaced_prefix_.size() &&
            missing.compare(0, root_replaced_prefix_.size(), root_replaced_prefix_) == 0) {
            return "cursor_layer_root_replaced_skip";
        }
        return "cursor_skipped_key";
    }
    // the border that currently holds `key` as a value entry (via the walker), or nullptr
    border_node* border_of(const std::string& name, const std::string& key) {
        tree_instance* ti = ti_of(name);
        if (ti == nullptr) { return nullptr; }
        vf::WalkOut w = vf::walk(ti);
        for (auto& e : w.entries) {
            if (e.key == key) { return e.bn; }
        }
        return nullptr;
    }

    // ---- full check (C08 / C13 isolation) --------------------------------------------------------
    void full_check(const std::string& name) {
        ensure_session();
        const MStore& ms = model[name];
        tree_instance* ti = ti_of(name);
        if (ti == nullptr) { fail("storage_missing", "storage \"" + show(name) + "\" not found"); }
        ++sub_evals;
        // (1) point lookups of every model key and of neighbours
        std::size_t probes = 0;
        for (auto& [k, v] : ms) {
            std::pair<char*, std::size_t> out{};
            status rc = get<char>(name, k, out);
            ++st_.checks;
            if (rc != status::OK) { fail("coherence_get", "key \"" + show(k) + "\" of the model not found by get: " + st_name(rc)); }
            check_value("full_check.get", k, v, out.first, out.second, true);
            if (probes < 64) {
                for (const std::string& pk : {k + std::string(1, '\0'), k.substr(0, k.empty() ? 0 : k.size() - 1)}) {
                    if (ms.count(pk) != 0) { continue; }
                    status r2 = get<char>(name, pk, out);
                    ++probes;
                    if (r2 != status::WARN_NOT_EXIST) { fail("coherence_get", "absent key \"" + show(pk) + "\" found by get"); }
                }
            }
        }
        if (!pf_.judge_full && !pf_.judge_storage) { return; } // C02 judges point operations only
        // (2) full forward scan
        std::vector<std::tuple<std::string, char*, std::size_t>> tl;
        status rc = scan<char>(name, "", scan_endpoint::INF, "", scan_endpoint::INF, tl, nullptr, 0, false);
        if (rc != status::OK) { fail("coherence_scan", "full scan returned " + st_name(rc)); }
        std::vector<std::string> exp;
        for (auto& [k, v] : ms) { exp.push_back(k); }
        std::vector<std::string> got;
        for (auto& t : tl) { got.push_back(std::get<0>(t)); }
        if (got != exp) { fail("coherence_scan", "full forward scan differs from the model (" + std::to_string(got.size()) + " vs " + std::to_string(exp.size()) + ")"); }
        // (3) full backward iscan, reversed
        if (pf_.judge_full) {
            iscan_context* ctx = nullptr;
            void* val = nullptr;
            std::vector<std::string> back;
            status r = iscan_open(name, "", scan_endpoint::INF, "", scan_endpoint::INF, true, false, ctx, val);
            while (r == status::OK) {
                back.push_back(ctx->full_key());
                r = iscan_next(ctx, val);
            }
            if (ctx != nullptr) { iscan_close(ctx); }
            if (r != status::OK_SCAN_END) { fail("coherence_iscan", "backward iscan returned " + st_name(r)); }
            std::reverse(back.begin(), back.end());
            if (back != exp) {
                std::string sig = "coherence_iscan";
                std::vector<std::string> rexp(exp.rbegin(), exp.rend());
                std::vector<std::string> rback(back.rbegin(), back.rend());
                std::set<std::string> g(back.begin(), back.end());
                bool all_member = true;
                bool any = false;
                for (auto& k : exp) {
                    if (g.count(k) != 0) { continue; }
                    any = true;
                    bool member = false;
                    for (std::size_t pos = 8; pos + 8 < k.size(); pos += 8) {
                        if (k.compare(pos, 8, std::string(8, '\xff')) == 0) { member = true; }
                    }
                    if (!member) { all_member = false; }
                }
                if (any && all_member && back.size() < exp.size()) { sig = "iscan_reverse_ff_link"; }
                fail(sig, "full backward iscan differs from the model (" + std::to_string(back.size()) + " vs " + std::to_string(exp.size()) + ")");
            }
        }
        // (4) structure
        vf::WalkOut w = vf::walk(ti);
        if (!w.ok) { fail("structure", w.err); }
        std::vector<std::string> wk;
        for (auto& e : w.entries) { wk.push_back(e.key); }
        if (wk != exp) { fail("structure", "in-order walk differs from the model"); }
        if (w.max_border_in_layer >= 2) { classes.insert("multi_border"); }
        if (w.n_interior >= 2) { classes.insert("multi_interior"); }
        if (w.n_layers >= 2) { classes.insert("multi_layer"); }
        if (w.max_border_in_layer >= 2 && (classes.count("bulk_remove") != 0 || classes.count("remove_all") != 0)) { nontrivial = true; }
        last_walk_borders_ = w.n_border;
    }
    std::size_t last_walk_borders_{0};

    void op_full() {
        if (model.empty()) { return; }
        std::string name = pick_storage(false);
        note("full_check(" + show(name) + ")");
        full_check(name);
    }

    // ---- C20 mem_usage ---------------------------------------------------------------------------
    void op_mem() {
        std::string name = pick_storage(true);
        note("mem_usage(" + show(name) + ")");
        ++sub_evals;
        memory_usage_stack got = mem_usage(name);
        ++st_.checks;
        if (model.count(name) == 0) {
            if (!got.empty()) { fail("mem_unknown_storage", "mem_usage of unknown storage is not empty"); }
            return;
        }
        const MStore& ms = model[name];
        tree_instance* ti = ti_of(name);
        vf::WalkOut w = vf::walk(ti);
        if (!w.ok) { fail("walker", w.err); }
        std::vector<std::size_t> val_res(w.shape.size(), 0);
        for (auto& e : w.entries) {
            const MVal& mv = ms.at(e.key);
            if (!mv.inl) { val_res[e.level] += mv.bytes.size() + std::max<std::size_t>(mv.align, 8); }
        }
        if (got.size() != w.shape.size()) {
            fail("mem_levels", "mem_usage reports " + std::to_string(got.size()) + " levels, tree has " + std::to_string(w.shape.size()));
        }
        for (std::size_t lv = 0; lv < got.size(); ++lv) {
            auto [nn, used, reserved] = got[lv];
            if (nn != w.shape[lv][0]) {
                fail("mem_nodes", "level " + std::to_string(lv) + ": node count " + std::to_string(nn) + " expected " + std::to_string(w.shape[lv][0]));
            }
            std::size_t exp_res = w.shape[lv][1] + val_res[lv];
            if (reserved != exp_res) {
                fail("mem_reserved", "level " + std::to_string(lv) + ": reserved " + std::to_string(reserved) + " expected " + std::to_string(exp_res));
            }
            if (used > reserved) { fail("mem_used", "level " + std::to_string(lv) + ": used " + std::to_string(used) + " > reserved " + std::to_string(reserved)); }
        }
        // metamorphic: insert a key that adds no node => used strictly grows at its level, nothing else changes except
        // that level's reserved by the value's allocation
        if (!ms.empty() && c_.chance(1, 2)) {
            std::string nk = vf::derive_key(c_, vf::nth_key(ms, c_.range(0, 65535)));
            if (ms.count(nk) == 0 && nk.size() <= 30000) {
                MVal v = gen_value();
                std::size_t nodes_before = w.n_border + w.n_interior;
                do_put(name, nk, v, true, 0, false);
                vf::WalkOut w2 = vf::walk(ti);
                if (w2.n_border + w2.n_interior == nodes_before) {
                    memory_usage_stack got2 = mem_usage(name);
                    std::size_t lvl = 0;
                    for (auto& e : w2.entries) {
                        if (e.key == nk) { lvl = e.level; }
                    }
                    std::size_t alloc = v.inl ? 0 : v.bytes.size() + std::max<std::size_t>(v.align, 8);
                    for (std::size_t lv = 0; lv < got2.size() && lv < got.size(); ++lv) {
                        auto [n1, u1, r1] = got[lv];
                        auto [n2, u2, r2] = got2[lv];
                        if (lv == lvl) {
                            if (!(u2 > u1)) { fail("mem_monotone", "used did not grow after occupying a slot"); }
                            if (r2 != r1 + alloc) { fail("mem_reserved", "reserved changed by " + std::to_string(r2 - r1) + " expected " + std::to_string(alloc)); }
                        } else if (u1 != u2 || r1 != r2 || n1 != n2) {
                            fail("mem_monotone", "an insert changed the footprint of another level");
                        }
                    }
                    classes.insert("mem_metamorphic");
                }
            }
        }
        if (w.shape.size() >= 3 || w.n_layers >= 2) {
            nontrivial = true;
            classes.insert(w.n_layers >= 2 ? "mem_multi_layer" : "mem_3_levels");
        }
    }

    // ---- C13 DDL ---------------------------------------------------------------------------------
    void op_ddl() {
        switch (c_.weighted({4, 3, 2, 2})) {
            case 0: {
                std::string name = c_.chance(1, 4) && !model.empty() ? vf::nth_key(model, c_.range(0, 255)) : gen_storage_name();
                note("create_storage(\"" + show(name) + "\")");
                end_session(); // DDL is not mixed with an open DML session's operations; it uses its own session
                status rc = create_storage(name);
                bool exists = model.count(name) != 0;
                ++st_.checks;
                status expect = exists ? status::WARN_UNIQUE_RESTRICTION : status::OK;
                if (rc != expect) { fail("create_storage_status", "create_storage returned " + st_name(rc) + " expected " + st_name(expect)); }
                if (!exists) { model[name]; }
                break;
            }
            case 1: {
                if (model.size() <= 1 && !c_.chance(1, 4)) { break; }
                std::string name = c_.chance(1, 5) ? gen_storage_name() : (model.empty() ? "s" : vf::nth_key(model, c_.range(0, 255)));
                note("delete_storage(\"" + show(name) + "\")");
                end_session();
                status rc = delete_storage(name);
                bool exists = model.count(name) != 0;
                ++st_.checks;
                status expect = exists ? status::OK : status::WARN_NOT_EXIST;
                if (rc != expect) { fail("delete_storage_status", "delete_storage returned " + st_name(rc) + " expected " + st_name(expect)); }
                model.erase(name);
                ddl_between_ = true;
                break;
            }
            case 2: {
                std::string name = c_.flip() ? gen_storage_name() : (model.empty() ? "s" : vf::nth_key(model, c_.range(0, 255)));
                note("find_storage(\"" + show(name) + "\")");
                tree_instance* ti{};
                status rc = find_storage(name, &ti);
                ++st_.checks;
                bool exists = model.count(name) != 0;
                if (rc != (exists ? status::OK : status::WARN_NOT_EXIST)) { fail("find_storage_status", "find_storage returned " + st_name(rc)); }
                if (exists && ti == nullptr) { fail("find_storage_status", "find_storage OK without tree"); }
                break;
            }
            default: {
                note("list_storages()");
                std::vector<std::pair<std::string, tree_instance*>> out;
                status rc = list_storages(out);
                ++st_.checks;
                if (model.empty()) {
                    if (rc != status::WARN_NOT_EXIST) { fail("list_storages_status", "list_storages on empty system returned " + st_name(rc)); }
                } else {
                    if (rc != status::OK) { fail("list_storages_status", "list_storages returned " + st_name(rc)); }
                    std::vector<std::string> exp;
                    for (auto& [n, s] : model) { exp.push_back(n); }
                    std::vector<std::string> got;
                    for (auto& p : out) { got.push_back(p.first); }
                    if (got != exp) { fail("list_storages_result", "list_storages differs from the model"); }
                }
            }
        }
        // isolation: every storage still equals its model
        if (pf_.judge_storage) {
            std::size_t with_data = 0;
            std::set<std::string> all_keys;
            bool intersect = false;
            for (auto& [n, s] : model) {
                full_check(n);
                if (!s.empty()) { ++with_data; }
                for (auto& [k, v] : s) {
                    if (!all_keys.insert(k).second) { intersect = true; }
                }
            }
            if (with_data >= 2 && intersect && ddl_between_) {
                nontrivial = true;
                classes.insert("storages_share_keys");
            }
        }
    }
    bool ddl_between_{false};

    // ---- C15 value round trip --------------------------------------------------------------------
    // a pointer-typed (inline) value may be the null pointer / the word 0: it is a value like any other and must round-trip through the
    // typed get / scan and through the cursor, which must not take it for a slot cleared by a concurrent remove and wait for ever.
    // Self-contained (the key is removed again): the other operations of the interpreter read every entry as char*.
    void inline_null_rt(const std::string& name) {
        ensure_session();
        const MStore& ms = model[name];
        std::string key;
        for (int tries = 0; tries < 8; ++tries) {
            key = vf::gen_fresh_key(c_, kopt_);
            if (ms.count(key) == 0) { break; }
        }
        if (ms.count(key) != 0) { return; }
        note("inline_null_rt(" + show(name) + ", \"" + show(key) + "\")");
        std::uintptr_t w = 0;
        ++st_.checks;
        status rc = put<std::uintptr_t>(token, name, key, &w, sizeof(w), static_cast<std::uintptr_t**>(nullptr),
                                        static_cast<value_align_type>(alignof(std::uintptr_t)), false, static_cast<inserted_node_info*>(nullptr));
        if (rc != status::OK) { fail("put_status", "put of an inline null value returned " + st_name(rc)); }
        std::pair<std::uintptr_t*, std::size_t> out{};
        rc = get<std::uintptr_t>(name, key, out);
        ++st_.checks;
        if (rc != status::OK || out.first != nullptr) { fail("value_mismatch", "get of an inline null value: " + st_name(rc)); }
        {
            std::vector<std::tuple<std::string, std::uintptr_t*, std::size_t>> tl;
            rc = scan<std::uintptr_t>(name, key, scan_endpoint::INCLUSIVE, key, scan_endpoint::INCLUSIVE, tl, nullptr, 0, false);
            ++st_.checks;
            if (rc != status::OK || tl.size() != 1 || std::get<0>(tl[0]) != key || std::get<1>(tl[0]) != nullptr) {
                fail("value_scan", "point scan of an inline null value: " + st_name(rc) + ", " + std::to_string(tl.size()) + " entries");
            }
        }
        for (bool r2l : {false, true}) {
            iscan_context* ctx = nullptr;
            void* val = &w;
            rc = iscan_open(name, key, scan_endpoint::INCLUSIVE, key, scan_endpoint::INCLUSIVE, r2l, false, ctx, val);
            ++st_.checks;
            bool ok = rc == status::OK && ctx != nullptr && ctx->full_key() == key && val == nullptr;
            if (ctx != nullptr) { iscan_close(ctx); }
            if (!ok) { fail("value_iscan", "point iscan of an inline null value: " + st_name(rc)); }
        }
        rc = remove(token, name, key);
        ++st_.checks;
        if (rc != status::OK) { fail("remove_status", "remove of a key with an inline null value returned " + st_name(rc)); }
        classes.insert("inline_null_value");
    }

    // values of 8-byte integer types other than uintptr_t are ordinary out-of-line values: an array of them keeps its length and every
    // element (only pointer types and uintptr_t are stored by value)
    template<class T>
    void typed_array_rt(const std::string& name, const char* tname) {
        ensure_session();
        const MStore& ms = model[name];
        std::string key;
        for (int tries = 0; tries < 8; ++tries) {
            key = vf::gen_fresh_key(c_, kopt_);
            if (ms.count(key) == 0) { break; }
        }
        if (ms.count(key) != 0) { return; }
        const std::size_t n = 1 + c_.range(0, 4);
        std::vector<T> arr;
        for (std::size_t i = 0; i < n; ++i) {
            std::uint64_t w = (static_cast<std::uint64_t>(next_id++) * 0x9E3779B97F4A7C15ULL);
            if (c_.chance(1, 3)) { w |= 0xC000000000000000ULL; } // top bits set: negative / huge values
            arr.push_back(static_cast<T>(w));
        }
        note(std::string("typed_array_rt<") + tname + ">(" + show(name) + ", \"" + show(key) + "\", n=" + std::to_string(n) + ")");
        T* created = nullptr;
        ++st_.checks;
        status rc = put<T>(token, name, key, arr.data(), n * sizeof(T), &created, static_cast<value_align_type>(alignof(T)), false,
                           static_cast<inserted_node_info*>(nullptr));
        if (rc != status::OK) { fail("put_status", std::string("put<") + tname + "> returned " + st_name(rc)); }
        std::pair<T*, std::size_t> out{};
        rc = get<T>(name, key, out);
        ++st_.checks;
        if (rc != status::OK || out.second != n * sizeof(T) || out.first == nullptr || out.first != created ||
            std::memcmp(out.first, arr.data(), n * sizeof(T)) != 0) {
            fail("value_mismatch", std::string("array of ") + std::to_string(n) + " " + tname + ": get returned " + st_name(rc) + " length " + std::to_string(out.second) +
                                           (out.first != created ? " (pointer differs from created_value_ptr)" : ""));
        }
        rc = remove(token, name, key);
        if (rc != status::OK) { fail("remove_status", "remove after typed_array_rt returned " + st_name(rc)); }
        classes.insert("typed_8byte_integer_array");
    }

    void op_value_rt() {
        std::string name = pick_storage(false);
        if (model.count(name) == 0) { return; }
        if (vf::g_decoder >= 2 && pf_.inline_values && c_.chance(1, 10)) {
            inline_null_rt(name);
            return;
        }
        if (vf::g_decoder >= 2 && pf_.prop == "C15" && c_.chance(1, 12)) {
            switch (c_.range(0, 2)) {
                case 0: typed_array_rt<std::int64_t>(name, "int64_t"); break;
                case 1: typed_array_rt<unsigned long long>(name, "unsigned long long"); break;
                default: typed_array_rt<long long>(name, "long long");
            }
            return;
        }
        MStore& ms = model[name];
        std::string key = ms.empty() || c_.chance(1, 2) ? vf::gen_fresh_key(c_, kopt_) : vf::nth_key(ms, c_.range(0, 65535));
        MVal v = gen_value();
        bool existed = ms.count(key) != 0;
        retired_values_.clear();
        do_put(name, key, v, false, 0, true);
        ++sub_evals;
        const MVal& mv = ms.at(key);
        // read back through all three paths
        do_get(name, key);
        {
            ScanArgs a;
            a.l = key;
            a.r = key;
            a.le = a.re = scan_endpoint::INCLUSIVE;
            std::vector<std::tuple<std::string, char*, std::size_t>> tl;
            status rc = scan<char>(name, a.l, a.le, a.r, a.re, tl, nullptr, 0, false);
            if (rc != status::OK || tl.size() != 1 || std::get<0>(tl[0]) != key) { fail("value_scan", "point scan did not return the key"); }
            check_value("scan", key, mv, std::get<1>(tl[0]), std::get<2>(tl[0]), true);
            iscan_context* ctx = nullptr;
            void* val = nullptr;
            status r2 = iscan_open(name, a.l, a.le, a.r, a.re, c_.flip(), false, ctx, val);
            if (r2 != status::OK || ctx->full_key() != key) {
                if (ctx != nullptr) { iscan_close(ctx); }
                fail("value_iscan", "point iscan did not return the key");
            }
            check_value("iscan", key, mv, val, 0, false);
            iscan_close(ctx);
        }
        if (!mv.inl && mv.bytes.size() > 8 && mv.align >= 64) {
            nontrivial = true;
            classes.insert("value_big_aligned");
        }
        if (existed) { classes.insert("overwrite"); }
        if (mv.inl) { classes.insert("inline_value"); }
        if (mv.bytes.size() >= (1U << 20U)) { classes.insert("value_mib"); }
        if (mv.bytes.empty() && !mv.inl) { classes.insert("value_len0"); }
    }
    std::vector<const void*> retired_values_;

    // ---- C05 phantom probes ----------------------------------------------------------------------
    struct Covered {
        std::string l, r;
        scan_endpoint le{scan_endpoint::INF}, re{scan_endpoint::INF};
    };
    static bool any_stale(const NVV& n) {
        for (auto& [v, p] : n) {
            if (p->get_stable_version() != v) { return true; }
        }
        return false;
    }
    void op_phantom() {
        std::string name = pick_storage(false);
        if (model.count(name) == 0) { return; }
        ensure_session();
        MStore& ms = model[name];
        unsigned kind = static_cast<unsigned>(c_.weighted({5, 2, 4}));
        // choose the read once; re-run it before every candidate
        ScanArgs a = gen_scan_args(ms, true, kind == 0);
        a.null_l = a.null_r = false;
        std::size_t limit = 0;
        std::string miss_key;
        if (kind == 1) {
            for (int i = 0; i < 4; ++i) {
                miss_key = vf::gen_key(c_, ms, kopt_);
                if (ms.count(miss_key) == 0) { break; }
                miss_key = vf::derive_key(c_, miss_key);
                if (ms.count(miss_key) == 0) { break; }
            }
            if (ms.count(miss_key) != 0) { return; }
        }
        if (kind == 2) {
            a.r2l = c_.flip();
            a.max = 0;
            limit = c_.chance(1, 2) ? 1 + c_.range(0, 12) : 0;
        }
        unsigned ncand = 1 + c_.range(0, 5);
        for (unsigned ci = 0; ci < ncand; ++ci) {
            NVV nvv;
            Covered cov;
            std::vector<std::string> produced;
            bool contributed_values_only_in_other_border = false;
            (void) contributed_values_only_in_other_border;
            bool early = false;
            if (kind == 0) {
                bool ok = false;
                produced = do_scan(name, a, &nvv, false, &ok);
                if (!ok) { return; }
                ++st_.checks;
                if (nvv.empty()) { fail("phantom_empty_set", "scan with node_version_vec returned an empty node set (" + args_text(a) + ")"); }
                cov = {a.l, a.r, a.le, a.re};
                if (a.r2l) {
                    if (!produced.empty()) {
                        cov.l = produced.front();
                        cov.le = scan_endpoint::INCLUSIVE;
                        early = true;
                    }
                } else if (a.max != 0 && produced.size() >= a.max) {
                    cov.r = produced.back();
                    cov.re = scan_endpoint::INCLUSIVE;
                    early = true;
                }
            } else if (kind == 1) {
                note("get_miss(" + show(name) + ", \"" + show(miss_key) + "\")");
                std::pair<char*, std::size_t> out{};
                std::pair<node_version64_body, node_version64*> cv{};
                status rc = get<char>(name, miss_key, out, &cv);
                ++st_.checks;
                if (rc != status::WARN_NOT_EXIST) { fail("get_status", "get of absent key returned " + st_name(rc)); }
                if (cv.second == nullptr) { fail("phantom_empty_set", "get miss without checked version"); }
                nvv.emplace_back(cv.first, cv.second);
                cov = {miss_key, miss_key, scan_endpoint::INCLUSIVE, scan_endpoint::INCLUSIVE};
            } else {
                CursorOut co = do_iscan(name, a, false, limit, &nvv, false);
                if (co.open_status != status::OK && co.open_status != status::OK_SCAN_END) { return; }
                produced = co.keys;
                cov = {a.l, a.r, a.le, a.re};
                if (!co.ended) {
                    early = true;
                    if (produced.empty()) { return; }
                    if (a.r2l) {
                        cov.l = produced.back();
                        cov.le = scan_endpoint::INCLUSIVE;
                    } else {
                        cov.r = produced.back();
                        cov.re = scan_endpoint::INCLUSIVE;
                    }
                }
            }
            // candidate: absent key inside the covered interval
            std::string x;
            bool found = false;
            for (int t = 0; t < 6 && !found; ++t) {
                std::string base;
                switch (c_.range(0, 4)) {
                    case 0: base = cov.l; break;
                    case 1: base = cov.r; break;
                    case 2: base = produced.empty() ? cov.l : produced[c_.range(0, static_cast<std::uint32_t>(produced.size() - 1))]; break;
                    case 3: base = ms.empty() ? cov.l : vf::nth_key(ms, c_.range(0, 65535)); break;
                    default: base = vf::gen_fresh_key(c_, kopt_);
                }
                x = c_.chance(1, 5) ? base : vf::derive_key(c_, base);
                if (kind == 1) { x = miss_key; }
                if (ms.count(x) == 0 && in_interval(x, cov.l, cov.le, cov.r, cov.re) && x.size() <= 30000) { found = true; }
            }
            if (!found) {
                st_.cls("phantom_no_candidate");
                continue;
            }
            // other sessions may remove keys between the read and the insert (removes change no node version; emptying the tree
            // leaves a deleted root border that the insert revives): the recorded set must still catch the insert
            std::vector<std::pair<std::string, MVal>> removed_between;
            if (!ms.empty() && c_.chance(1, 3)) {
                std::vector<std::string> victims;
                switch (c_.range(0, 2)) {
                    case 0: // everything
                        for (auto& [k, mv] : ms) { victims.push_back(k); }
                        break;
                    case 1: // every key of the covered interval
                        for (auto& [k, mv] : ms) {
                            if (in_interval(k, cov.l, cov.le, cov.r, cov.re)) { victims.push_back(k); }
                        }
                        break;
                    default: { // a few
                        unsigned nv = 1 + c_.range(0, 3);
                        for (unsigned i = 0; i < nv; ++i) { victims.push_back(vf::nth_key(ms, c_.range(0, 65535))); }
                    }
                }
                if (victims.size() > 300) { victims.resize(300); }
                std::sort(victims.begin(), victims.end());
                victims.erase(std::unique(victims.begin(), victims.end()), victims.end());
                std::size_t saved = log.size();
                for (auto& k : victims) {
                    removed_between.emplace_back(k, ms.at(k));
                    do_remove(name, k);
                }
                log.resize(saved);
                note("  (" + std::to_string(victims.size()) + " stored keys removed between the read and the insert)");
                classes.insert("phantom_removes_between");
            }
            // which border will receive x?  (for the non-triviality rule) -- look at where it ends up after the insert
            MVal v = gen_bulk_value();
            do_put(name, x, v, true, 0, false);
            ++sub_evals;
            ++st_.checks;
            bool stale = any_stale(nvv);
            border_node* xb = border_of(name, x);
            bool xb_recorded_with_value = false;
            bool xb_recorded = false;
            if (xb != nullptr) {
                for (auto& [vv, p] : nvv) {
                    if (p == xb->get_version_ptr()) { xb_recorded = true; }
                }
                // did the border contribute a value tuple to the read?
                vf::WalkOut w = vf::walk(ti_of(name));
                std::set<std::string> prod(produced.begin(), produced.end());
                for (auto& e : w.entries) {
                    if (e.bn == xb && e.key != x && prod.count(e.key) != 0) { xb_recorded_with_value = true; }
                }
            }
            if (!stale) {
                std::string sig = "phantom_undetected";
                // signature of the known "enclosing border of a link not recorded" class: the border that received x was
                // not recorded at all, and x's border links (directly or transitively) to a recorded border or the read ended on a link
                if (kind == 0 && !xb_recorded && xb != nullptr && border_links_to_recorded(name, xb, nvv)) { sig = "phantom_link_border_unrecorded"; }
                do_remove(name, x);
                fail(sig, std::string("insert of \"") + show(x) + "\" into the covered interval left every recorded (version,node) pair unchanged; read=" +
                                  (kind == 0 ? "scan " + args_text(a) : kind == 1 ? "get-miss" : "iscan " + args_text(a) + " limit=" + std::to_string(limit)) +
                                  " recorded=" + std::to_string(nvv.size()));
            }
            if (!xb_recorded_with_value || early) {
                nontrivial = true;
                classes.insert(early ? "phantom_early_end" : "phantom_border_without_values");
            }
            classes.insert(kind == 0 ? "phantom_scan" : kind == 1 ? "phantom_get_miss" : "phantom_iscan");
            do_remove(name, x);
            if (!removed_between.empty()) {
                std::size_t saved = log.size();
                for (auto& [k, mv] : removed_between) { do_put(name, k, mv, true, 0, false); }
                log.resize(saved);
            }
        }
    }
    // true if border b has a link entry whose subtree contains a border recorded in nvv
    bool border_links_to_recorded(const std::string& name, border_node* b, const NVV& nvv) {
        std::set<node_version64*> rec;
        for (auto& [v, p] : nvv) { rec.insert(p); }
        vf::WalkOut w = vf::walk(ti_of(name));
        // a recorded border whose parent chain (through layer roots) reaches b
        for (auto* rb : w.borders) {
            if (rec.count(rb->get_version_ptr()) == 0) { continue; }
            base_node* n = rb;
            for (int guard = 0; n != nullptr && guard < 100000; ++guard) {
                if (n == b && rb != b) { return true; }
                n = n->get_parent();
            }
        }
        // or nothing was recorded at all below/at b and the read ended on a link of b
        if (nvv.empty()) { return true; }
        return false;
    }

    // ---- main loop -------------------------------------------------------------------------------
    void run() {
        // every program starts with one storage; C13 programs create their own as well
        // every program starts with one storage "s" -- except some of the multi-storage programs, which start on a system where no
        // storage was ever created (data and DDL operations on unknown names hit the empty storage directory)
        if (!pf_.multi_storage || c_.chance(3, 4)) {
            if (create_storage("s") != status::OK) { fail("harness", "create_storage(s) failed"); }
            model["s"];
            note("create_storage(\"s\")");
        } else {
            classes.insert("starts_without_any_storage");
        }
        if (vf::g_decoder >= 2 && pf_.inline_values && pf_.prop == "C20" && c_.chance(1, 4)) {
            inline_heavy_ = true;
            classes.insert("inline_heavy_program");
        }
        std::size_t nops = 0;
        while (!c_.exhausted() && nops < pf_.max_ops) {
            ++nops;
            std::size_t k = c_.weighted({pf_.w_put, pf_.w_put_unique, pf_.w_get, pf_.w_remove, pf_.w_scan, pf_.w_iscan, pf_.w_bulk_put,
                                         pf_.w_bulk_remove, pf_.w_full, pf_.w_phantom, pf_.w_mem, pf_.w_ddl, pf_.w_reenter,
                                         pf_.w_cursor_mix, pf_.w_remove_all_reinsert, pf_.w_value_rt});
            switch (k) {
                case 0: op_put(false); break;
                case 1: op_put(true); break;
                case 2: op_get(); break;
                case 3: op_remove(); break;
                case 4: op_scan(); break;
                case 5: op_iscan(); break;
                case 6: op_bulk_put(); break;
                case 7: op_bulk_remove(); break;
                case 8: op_full(); break;
                case 9: op_phantom(); break;
                case 10: op_mem(); break;
                case 11: op_ddl(); break;
                case 12:
                    note("reenter");
                    end_session();
                    break;
                case 13: op_cursor_mix(); break;
                case 14: op_remove_all_reinsert(); break;
                default: op_value_rt();
            }
        }
        // closing checks
        if (pf_.judge_full || pf_.judge_point || pf_.judge_storage) {
            for (auto& [n, s] : model) {
                note("final full_check(" + show(n) + ")");
                full_check(n);
            }
        }
        if (pf_.judge_point) {
            // structure-changing programs are the non-trivial ones for C02
            for (auto& [n, s] : model) {
                tree_instance* ti = ti_of(n);
                if (ti == nullptr) { continue; }
                vf::WalkOut w = vf::walk(ti);
                if (w.n_border >= 2 || w.n_layers >= 2 || classes.count("bulk_remove") != 0 || classes.count("remove_all") != 0) { nontrivial = true; }
                if (w.n_interior >= 1) { classes.insert("interior"); }
                if (w.n_layers >= 2) { classes.insert("layers"); }
            }
        }
        if (!leave_session_open) { end_session(); }
    }

private:
    const Profile& pf_;
    Chooser& c_;
    vf::Stats& st_;
    bool record_;
    vf::KeyGenOpts kopt_;
};

// drop every storage and drain the retire queues of all session slots (no init()/fin(): SEQ cases never
// start the background threads)
inline void reset_library() {
    destroy();
    for (auto& ti : thread_info_table::get_thread_info_table()) {
        ti.get_gc_info().fin();
        if (ti.get_running()) {
            ti.set_begin_epoch(0);
            ti.set_running(false);
        }
    }
}

inline vf::CaseResult run_case(const vf::RunnerArgs& args, const std::vector<std::uint8_t>& bytes, bool record, vf::Stats& st) {
    static Profile pf;
    static std::string pf_key;
    if (pf_key != args.prop + "/" + args.tier) {
        pf = make_profile(args.prop, args.tier);
        pf_key = args.prop + "/" + args.tier;
    }
    vf::CaseResult res;
    Chooser c(bytes);
    Interp in(pf, c, st, record);
    in.trace = args.verbose;
    try {
        in.run();
    } catch (const Fail& f) {
        res.pass = false;
        res.signature = f.signature;
        res.message = f.message;
    } catch (const std::exception& e) {
        res.pass = false;
        res.signature = "uncaught_exception";
        res.message = std::string("an exception escaped from the library: ") + e.what() + "\n--- program ---\n" + in.program_text();
    }
    if (in.token != nullptr) {
        leave(in.token);
        in.token = nullptr;
    }
    reset_library();
    if (record) {
        st.evaluations += in.sub_evals; // judged sub-cases (scans, probes, ...) in addition to the program itself
        for (auto& cl : in.classes) { st.cls(cl); }
        if (in.nontrivial && res.pass) {
            // optional: save non-trivial cases as a seed corpus for the libFuzzer front-end
            static const char* dump_dir = std::getenv("VF_DUMP_CORPUS");
            static int dumped = 0;
            if (dump_dir != nullptr && dumped < 400) {
                std::string path = std::string(dump_dir) + "/seed_" + args.prop + "_" + std::to_string(args.shard) + "_" + std::to_string(dumped++);
                FILE* f = std::fopen(path.c_str(), "wb");
                if (f != nullptr) {
                    std::fwrite(bytes.data(), 1, bytes.size(), f);
                    std::fclose(f);
                }
            }
            st.nontrivial(vf::fnv1a(in.program_text(100000)));
            std::string key = in.classes.empty() ? std::string("plain") : *in.classes.rbegin();
            if (st.want_sample(key)) { st.sample(key, in.program_text(40)); }
        }
        st.cls(in.nontrivial ? "_nontrivial_cases" : "_trivial_cases");
    }
    return res;
}

} // namespace seq
