// SCHED scenarios over one storage: point operations, scans and cursors from 2..4 logical threads on hot keys of a
// generated tree shape, executed by the real library under a generated schedule.  Serves C01 C04 C06 C08 C09 C10.
#pragma once
#include <algorithm>
#include <map>
#include <set>
#include <sstream>
#include <string>
#include <vector>

#include "kvs.h"

#include "../common/chooser.h"
#include "../common/keys.h"
#include "../common/linz.h"
#include "../common/runner.h"
#include "../common/stats.h"
#include "../common/walker.h"
#include "sched.h"

namespace dml {

using namespace yakushima; // NOLINT
using vf::Chooser;
using vf::HKind;
using vf::HOp;
using vf::HRes;
using vf::show;

struct Fail {
    std::string signature;
    std::string message;
};

enum class OpK : std::uint8_t { Put, PutUnique, Get, Remove, Scan, Cursor };

struct Op {
    OpK kind{OpK::Get};
    std::string key;         // point ops
    std::uint32_t wid{0};    // value id for puts
    // range ops
    std::string l, r;
    scan_endpoint le{scan_endpoint::INF}, re{scan_endpoint::INF};
    std::size_t max{0};
    bool r2l{false};
    bool nvv{false};
    bool early_abort{false};
    std::size_t stop_after{0};
};

struct Profile {
    std::string prop;
    unsigned w_put{3}, w_put_unique{1}, w_get{3}, w_remove{3}, w_scan{0}, w_cursor{0};
    unsigned min_threads{2}, max_threads{3};
    unsigned max_ops{3};
    bool inserters_only_new_keys{false}; // C06: writers insert distinct absent keys (plus removers of other keys)
    bool scanner_thread{false};          // thread 0 is a reader (scan / cursor), the others are writers
    bool small_sublayers{false};         // C10: avoid the trigger of the open finding (layer >= 1 root replaced)
    bool thorough{false};
    bool judge_history{true};  // linearizability, value sanity, range-read consistency
    bool judge_quiescent{true}; // coherence of access paths + structure at quiescence
    bool allow_inline{false};   // some cases store inline (uintptr_t) values
    bool force_templates{false}; // enumeration stages: always build the scenario from the race templates
    bool cursor_skip_reads{true}; // keys passed over by a cursor count as 'absent' pseudo-reads (C10's no-skip clause)
    bool conflict_bias{true};     // a third of the cases run with the conflict-directed overlay of the scheduler
};

inline Profile make_profile(const std::string& prop, const std::string& tier) {
    Profile p;
    p.prop = prop;
    p.thorough = tier == "thorough";
    if (prop == "C01") {
        p.allow_inline = true;
        p.max_threads = 4;
        p.max_ops = 4;
    } else if (prop == "C04") {
        p.w_get = 0;
        p.w_scan = 6;
        p.scanner_thread = true;
        p.max_threads = 4;
    } else if (prop == "C06") {
        p.w_get = 3; // get-miss with checked_version is the point-read form of the same guarantee
        p.w_scan = 6;
        p.scanner_thread = true;
        p.inserters_only_new_keys = true;
    } else if (prop == "C08") {
        p.allow_inline = true;
        p.w_get = 0;
        p.w_put = 4;
        p.w_remove = 4;
        p.max_threads = 4;
        p.max_ops = 4;
    } else if (prop == "C09") {
        p.judge_history = false; // C09 judges completion and locks only; reads are judged by C01/C04/C10
        p.allow_inline = true;
        p.w_scan = 2;
        p.w_cursor = 2;
        p.max_threads = 4;
        p.max_ops = 4;
    } else if (prop == "C15") {
        p.cursor_skip_reads = false; // C15 judges the values that are observed, not which keys a cursor passes over
        // overwrites of few keys with values of different lengths vs. get / scan / cursor readers
        p.w_put = 8;
        p.w_put_unique = 0;
        p.w_remove = 1;
        p.w_get = 5;
        p.w_scan = 3;
        p.w_cursor = 3;
        p.max_threads = 4;
        p.max_ops = 4;
    } else if (prop == "C10") {
        p.w_get = 0;
        p.w_cursor = 6;
        p.scanner_thread = true;
        p.small_sublayers = true;
    }
    return p;
}

inline bool g_varied_lengths = false; // C15: overwrites with values of very different lengths
inline bool g_inline_values = false;  // this case stores inline (uintptr_t) values: the word is the value id
inline std::string value_of(std::uint32_t id) {
    // decoder 2: three consecutive ids share a length, so an overwrite often replaces a value by one of the same length (the case an
    // "update in place" shortcut would take)
    const std::uint32_t g = vf::g_decoder >= 2 ? id / 3 : id;
    if (g_varied_lengths) {
        static const std::size_t lens[] = {4, 5, 8, 9, 64, 100, 1000, 4096, 7, 33};
        return vf::value_bytes(id, lens[g % 10]);
    }
    return vf::value_bytes(id, 4 + g % 9);
}

// decode a value observed through a pointer: returns id, or 0xffffffff for null, 0xfffffffe for torn / unknown bytes
inline std::uint32_t identify(const void* p, std::size_t len, bool have_len, std::uint32_t max_id) {
    if (g_inline_values) {
        auto w = reinterpret_cast<std::uintptr_t>(p);
        if (w == 0) { return 0xffffffffU; }
        if (w > max_id || (have_len && len != sizeof(std::uintptr_t))) { return 0xfffffffeU; }
        return static_cast<std::uint32_t>(w);
    }
    if (p == nullptr) { return 0xffffffffU; }
    std::uint32_t id = 0;
    std::memcpy(&id, p, 4);
    if (id == 0 || id > max_id) { return 0xfffffffeU; }
    std::string exp = value_of(id);
    if (have_len && len != exp.size()) { return 0xfffffffeU; }
    if (std::memcmp(p, exp.data(), exp.size()) != 0) { return 0xfffffffeU; }
    return id;
}

struct ScanRecord {
    int thread{0};
    Op op;
    status rc{status::OK};
    std::vector<std::pair<std::string, std::uint32_t>> items; // key, value id
    std::vector<std::pair<node_version64_body, node_version64*>> nvv;
    std::uint64_t inv{0}, resp{0};
    // cursor: response time of each step; final status
    std::vector<std::uint64_t> step_resp;
    status final_rc{status::OK};
    bool null_value{false};
};

// triage detail for a failed range read: what it produced and which (node, version) pairs it recorded, with the node's version now
inline std::string describe_range_read(const ScanRecord& r) {
    std::string t = "\n  rc=" + std::to_string(static_cast<int>(r.rc)) + " final_rc=" + std::to_string(static_cast<int>(r.final_rc)) + " result:";
    for (auto& it : r.items) { t += " \"" + vf::show(it.first) + "\""; }
    t += "\n  recorded:";
    for (auto& nv : r.nvv) {
        char buf[160];
        node_version64_body now = nv.second->get_body();
        std::snprintf(buf, sizeof(buf), " %p{ins=%u split=%u del=%d root=%d}->{ins=%u split=%u del=%d root=%d}", static_cast<void*>(nv.second),
                      static_cast<unsigned>(nv.first.get_vinsert_delete()), static_cast<unsigned>(nv.first.get_vsplit()), nv.first.get_deleted() ? 1 : 0,
                      nv.first.get_root() ? 1 : 0, static_cast<unsigned>(now.get_vinsert_delete()), static_cast<unsigned>(now.get_vsplit()),
                      now.get_deleted() ? 1 : 0, now.get_root() ? 1 : 0);
        t += buf;
    }
    return t;
}

struct Scenario {
    std::string prefix;
    std::vector<std::string> init_keys;
    std::map<std::string, std::uint32_t> init_val;
    bool emptied{false};
    bool inline_values{false};
    std::vector<std::string> pre_removed; // inserted and removed again during setup (sparse shapes: borders with one or two keys)
    std::vector<std::string> setup_order; // if not empty: the setup inserts exactly these keys in this order, then removes those not in init_val
    std::vector<std::string> hot;
    std::vector<std::vector<Op>> threads;
    std::uint32_t max_id{0};
    std::string family;
    bool conflict_bias{false}; // run under the conflict-directed overlay

    std::string text() const {
        std::ostringstream ss;
        ss << "shape=" << family << " prefix=\"" << show(prefix) << "\" init_keys=" << init_keys.size() << (emptied ? " (all removed again)" : "")
           << (pre_removed.empty() ? "" : " (+" + std::to_string(pre_removed.size()) + " inserted and removed again)")
           << (conflict_bias ? " conflict-directed" : "") << " hot=[";
        for (auto& h : hot) { ss << "\"" << show(h) << "\" "; }
        ss << "]\n";
        for (std::size_t t = 0; t < threads.size(); ++t) {
            ss << " T" << t << ":";
            for (auto& o : threads[t]) {
                switch (o.kind) {
                    case OpK::Put: ss << " put(\"" << show(o.key) << "\",v" << o.wid << ")"; break;
                    case OpK::PutUnique: ss << " put_unique(\"" << show(o.key) << "\",v" << o.wid << ")"; break;
                    case OpK::Get: ss << " get(\"" << show(o.key) << "\")"; break;
                    case OpK::Remove: ss << " remove(\"" << show(o.key) << "\")"; break;
                    case OpK::Scan:
                        ss << " scan(\"" << show(o.l) << "\"/" << static_cast<int>(o.le) << ",\"" << show(o.r) << "\"/" << static_cast<int>(o.re)
                           << ",max=" << o.max << (o.r2l ? ",r2l" : "") << (o.nvv ? ",nvv" : "") << ")";
                        break;
                    case OpK::Cursor:
                        ss << " cursor(\"" << show(o.l) << "\"/" << static_cast<int>(o.le) << ",\"" << show(o.r) << "\"/" << static_cast<int>(o.re)
                           << (o.r2l ? ",r2l" : "") << (o.early_abort ? ",early_abort" : "") << (o.stop_after ? ",stop=" + std::to_string(o.stop_after) : "")
                           << (o.nvv ? ",cb" : "") << ")";
                        break;
                }
            }
            ss << "\n";
        }
        return ss.str();
    }
};

inline std::string ctr_key(const std::string& prefix, unsigned x, unsigned width) {
    std::string k = prefix;
    for (unsigned b = width; b-- > 0;) { k.push_back(static_cast<char>((x >> (8 * b)) & 0xffU)); }
    return k;
}

// Trigger of the open finding C10/cursor_start_tuple_inserted: key x, inserted while the cursor runs, has the cursor's start
// tuple at the layer where iscan_findfirst stops (the start key itself, or a key below a link slice of the start key that may not
// exist when the cursor is opened).
inline bool start_tuple_conflict(const Scenario& s, const Op& o, const std::string& x) {
    std::string sk;
    if (!o.r2l) {
        sk = o.le == scan_endpoint::INF ? std::string() : o.l;
    } else {
        if (o.re == scan_endpoint::INF) {
            sk = std::string(8, '\xff') + "x"; // starts at the maximum tuple = the link slice FFx8
        } else {
            sk = o.r;
        }
    }
    if (x == sk) { return true; }
    for (std::size_t d = 0; sk.size() > 8 * (d + 1); ++d) {
        const std::size_t plen = 8 * (d + 1);
        if (x.size() <= plen || x.compare(0, plen, sk, 0, plen) != 0) { return false; }
        // x continues below the same link slice at depth d; the link may be absent at open time if no stored key lies below it, or
        // if some remove in the scenario targets a key below it
        bool exists = false;
        if (!s.emptied) {
            for (auto& k : s.init_keys) {
                if (k.size() > plen && k.compare(0, plen, sk, 0, plen) == 0) { exists = true; }
            }
        }
        bool removable = false;
        for (auto& th : s.threads) {
            for (auto& w : th) {
                if (w.kind == OpK::Remove && w.key.size() > plen && w.key.compare(0, plen, sk, 0, plen) == 0) { removable = true; }
            }
        }
        if (!exists || removable) { return true; }
    }
    return false;
}

inline Scenario decode(Chooser& c, const Profile& pf, vf::Stats& st, bool record) {
    Scenario s;
    // ---- shape
    const bool v2 = vf::g_decoder >= 2; // shapes / templates added later; files written for decoder 1 keep their meaning
    unsigned fam = v2 ? static_cast<unsigned>(c.weighted({2, 2, 3, 4, 4, static_cast<unsigned>(pf.thorough ? 2 : 1), 1, 4, 3, 1, 3}))
                      : static_cast<unsigned>(c.weighted({2, 2, 3, 4, 4, static_cast<unsigned>(pf.thorough ? 1 : 0), 1, 4}));
    bool sparse = false;
    bool pair = false;
    bool dense_thin = false; // ... and the border right of it holds one key
    bool dense = false;      // one border that is not the last of its layer is filled up to 15 entries
    unsigned dense_b = 0;
    unsigned n = 0;
    switch (fam) {
        case 10: // several borders, one inner border full: a put into it splits a node that HAS a right sibling (range reads that
                 // arrive from the right, or leave to the right, cross the split)
            n = 24 + c.range(0, 24);
            dense = true;
            s.family = "full_inner_border";
            fam = 4;
            break;
        case 8: // two or three borders with one or two keys each below one interior: one remove collapses the interior
            n = 16 + c.range(0, 10);
            sparse = true;
            pair = true;
            s.family = "collapse_pair";
            fam = 7;
            break;
        case 9: // several interior nodes, one or two keys per border
            n = 130 + c.range(0, 120);
            sparse = true;
            s.family = "sparse_interiors";
            fam = 7;
            break;
        case 0: n = 0; s.family = "empty"; break;
        case 1: n = 1; s.family = "one_key"; break;
        case 2: n = 14; s.family = "14_keys"; break;
        case 3: n = 15; s.family = "full_border"; break;
        case 4: n = 16 + c.range(0, 44); s.family = "multi_border"; break;
        case 5: n = 250; s.family = "two_interior_levels"; break;
        case 6: n = 1 + c.range(0, 20); s.emptied = true; s.family = "emptied"; break;
        default: n = 24 + c.range(0, 40); sparse = true; s.family = "sparse_borders";
    }
    unsigned depth = static_cast<unsigned>(c.weighted({5, 3, 1}));
    for (unsigned d = 0; d < depth; ++d) { s.prefix += vf::slice_pool()[c.range(0, 5)]; }
    if (pf.allow_inline && c.chance(1, 5)) {
        s.inline_values = true; // pointer-sized values stored in the slot itself: remove does not clear the slot
        s.family += "+inline_values";
    }
    if (pf.small_sublayers && depth > 0 && !c.chance(1, 10)) {
        // open finding C10/cursor_layer_root_replaced_skip: keep next layers too small for their root to split
        if (n > 8) {
            n = 1 + n % 8;
            s.family += "_small_sublayer";
        }
        if (record) { ++st.excluded_by_construction; }
    }
    unsigned width = n > 120 ? 2 : 1;
    for (unsigned i = 0; i < n; ++i) { s.init_keys.push_back(ctr_key(s.prefix, 2 * i + 1, width)); }
    if (dense && n >= 17) {
        // ascending inserts left borders of 8 keys (2*i+1 for i in [8b, 8b+8)); the 7 even counters strictly inside border b fill it
        dense_b = c.range(0, (n - 1) / 8 - 1);
        for (unsigned j = 1; j <= 7; ++j) { s.init_keys.push_back(ctr_key(s.prefix, 16 * dense_b + 2 * j, width)); }
        if (c.chance(1, 3)) {
            // ... and its right neighbour keeps only its first key: a remove of that key unlinks the neighbour and locks the border on its
            // left, which is the new border of a split that is going on at that moment
            dense_thin = true;
            s.setup_order = s.init_keys; // ascending keys, then the fill keys: the shape the removes below start from
            for (unsigned i = 8 * (dense_b + 1) + 1; i < 8 * (dense_b + 2) && i < n; ++i) {
                const std::string k = ctr_key(s.prefix, 2 * i + 1, width);
                auto it = std::find(s.init_keys.begin(), s.init_keys.end(), k);
                if (it != s.init_keys.end()) { s.init_keys.erase(it); }
            }
            s.family += "+one_key_right_neighbour";
        }
    } else {
        dense = false;
    }
    if (sparse) {
        // ascending inserts give borders of 8 keys; keep one (sometimes two) per border so that a single remove empties and
        // unlinks a border and neighbouring unlinks / splits race with few operations
        std::vector<std::string> kept;
        unsigned keep2 = c.range(0, 2);
        for (unsigned i = 0; i < n; ++i) {
            bool keep = i % 8 == 0 || (keep2 == 1 && i % 8 == 1) || (keep2 == 2 && i % 16 == 9);
            (keep ? kept : s.pre_removed).push_back(s.init_keys[i]);
        }
        s.init_keys = kept;
        n = static_cast<unsigned>(kept.size());
    }
    const std::vector<std::string> layer_keys = s.init_keys;
    // optional siblings in the upper layer (so that the root border of layer 0 holds several entries)
    bool upper_full = false; // the border of the upper layer that holds the link is full (14 siblings + the link)
    if (depth > 0 && c.chance(pair ? 2 : 1, 3)) {
        unsigned sib = c.flip() ? 14 : 1 + c.range(0, 5);
        upper_full = sib == 14 && depth == 1;
        for (unsigned i = 0; i < sib; ++i) {
            s.init_keys.push_back(std::string(1, static_cast<char>('A' + i)));
            if (!s.setup_order.empty()) { s.setup_order.push_back(s.init_keys.back()); }
        }
        s.family += "+upper_siblings";
    }
    std::uint32_t id = 1;
    for (auto& k : s.init_keys) { s.init_val[k] = id++; }
    // ---- hot keys
    unsigned nhot = 1 + static_cast<unsigned>(c.weighted({2, 4, 3, 2}));
    auto present_at = [&](unsigned r) { return layer_keys[r % layer_keys.size()]; };
    for (unsigned i = 0; i < nhot; ++i) {
        std::string k;
        unsigned kind = static_cast<unsigned>(c.weighted({n == 0 ? 0U : 5U, 4, 2, 1}));
        switch (kind) {
            case 0: { // present key at an interesting rank
                static const unsigned ranks[] = {0, 7, 8, 14, 15, 6, 22, 23};
                unsigned r = 0;
                switch (c.range(0, 3)) {
                    case 0: r = 0; break;
                    case 1: r = n - 1; break;
                    case 2: r = ranks[c.range(0, 7)] % n; break;
                    default: r = c.range(0, n - 1);
                }
                k = present_at(r);
                break;
            }
            case 1: { // absent key between / before / after the stored keys (same border fan-out)
                if (!s.pre_removed.empty() && c.chance(2, 3)) {
                    k = s.pre_removed[c.range(0, static_cast<std::uint32_t>(s.pre_removed.size() - 1))];
                    break;
                }
                unsigned pos = c.range(0, n);
                if (c.chance(1, 4)) { pos = n; }
                k = ctr_key(s.prefix, 2 * pos, width);
                break;
            }
            case 2: { // absent key that needs a new layer below a stored / absent slice
                unsigned r = n == 0 ? 0 : c.range(0, n - 1);
                std::string base = ctr_key(s.prefix, 2 * r + 1, width);
                base.resize(s.prefix.size() + 8, 'x');
                k = base + std::string(1, static_cast<char>('0' + c.range(0, 2)));
                break;
            }
            default: k = s.prefix.empty() ? std::string() : s.prefix.substr(0, 8 * c.range(0, depth)); // "", or a proper prefix (8-byte key)
        }
        if (std::find(s.hot.begin(), s.hot.end(), k) == s.hot.end()) { s.hot.push_back(k); }
    }
    // ---- threads
    unsigned nt = pf.min_threads + c.range(0, pf.max_threads - pf.min_threads);
    s.threads.resize(nt);
    std::set<std::string> fresh_used;
    bool force_r2l = false; // template scenarios that aim at the right end of the layer ask for a right-to-left range read
    auto gen_range_op = [&](Op& o, bool cursor) {
        o.kind = cursor ? OpK::Cursor : OpK::Scan;
        // endpoints: full range, or around hot / stored keys
        auto pick_ep = [&]() -> std::string {
            switch (c.range(0, 3)) {
                case 0: return s.hot[c.range(0, static_cast<std::uint32_t>(s.hot.size() - 1))];
                case 1: return s.init_keys.empty() ? s.prefix : s.init_keys[c.range(0, static_cast<std::uint32_t>(s.init_keys.size() - 1))];
                case 2: return s.prefix;
                default: return "";
            }
        };
        if (!c.chance(1, 2)) {
            o.l = pick_ep();
            o.r = pick_ep();
            o.le = c.flip() ? scan_endpoint::INCLUSIVE : scan_endpoint::EXCLUSIVE;
            o.re = c.flip() ? scan_endpoint::INCLUSIVE : scan_endpoint::EXCLUSIVE;
            if (c.chance(1, 3)) { o.le = scan_endpoint::INF; }
            if (c.chance(1, 3)) { o.re = scan_endpoint::INF; }
            if (o.le != scan_endpoint::INF && o.re != scan_endpoint::INF && o.r < o.l) { std::swap(o.l, o.r); }
            bool bad = (o.le != scan_endpoint::INF && o.re != scan_endpoint::INF && o.l == o.r &&
                        (o.le == scan_endpoint::EXCLUSIVE || o.re == scan_endpoint::EXCLUSIVE)) ||
                       (o.r.empty() && o.re == scan_endpoint::EXCLUSIVE);
            if (bad) {
                o.le = scan_endpoint::INF;
                o.re = scan_endpoint::INF;
            }
        }
        o.nvv = pf.prop == "C06" || pf.prop == "C10" || c.chance(1, 3);
        if (cursor) {
            o.r2l = force_r2l || c.chance(1, 3);
            o.early_abort = c.chance(1, 4);
            o.stop_after = c.chance(1, 4) ? 1 + c.range(0, 5) : 0;
        } else {
            switch (force_r2l ? 4U : static_cast<unsigned>(c.weighted({5, 2, 1, 1, 2}))) {
                case 0: o.max = 0; break;
                case 1: o.max = 1; break;
                case 2: o.max = 2; break;
                case 3: o.max = 3; break;
                default:
                    o.r2l = true;
                    o.max = 1;
                    o.re = scan_endpoint::INF;
                    if (o.le != scan_endpoint::INF && o.r < o.l) { o.le = scan_endpoint::INF; }
            }
        }
    };
    // ---- churn: every thread owns a share of the 16-24 stored keys, removes all of them and inserts them again (the pattern of the
    // project's multi_thread_put_delete_* tests): borders are emptied and unlinked, the interior root collapses and the tree is rebuilt
    // while the other threads do the same
    bool churn = false;
    if (!pf.scanner_thread && !pf.inserters_only_new_keys && !pf.force_templates && pf.w_remove > 0 && (fam == 4 || fam == 7) && c.chance(1, 2)) {
        churn = true;
        std::vector<std::string> keys = layer_keys;
        if (keys.size() > 24) { keys.resize(24); }
        nt = 2 + c.range(0, pf.max_threads - 2);
        s.threads.assign(nt, {});
        for (unsigned t = 0; t < nt; ++t) {
            std::vector<std::string> own;
            for (std::size_t i = t; i < keys.size(); i += nt) { own.push_back(keys[i]); }
            if (c.flip()) { std::reverse(own.begin(), own.end()); }
            unsigned rounds = 1 + c.range(0, 1);
            for (unsigned r0 = 0; r0 < rounds; ++r0) {
                for (auto& k : own) {
                    Op o;
                    o.kind = OpK::Remove;
                    o.key = k;
                    s.threads[t].push_back(o);
                }
                if (pf.w_scan > 0 && c.chance(1, 3)) {
                    Op o;
                    o.kind = OpK::Scan;
                    s.threads[t].push_back(o);
                }
                for (auto& k : own) {
                    Op o;
                    o.kind = OpK::Put;
                    o.key = k;
                    o.wid = id++;
                    s.threads[t].push_back(o);
                }
            }
        }
        s.family += "+churn";
    }
    // ---- race templates: a reader / point op on a stored key K against a writer sequence that frees, re-uses, splits or unlinks
    // exactly the slot / border of K (K2 = absent neighbour of K in the same border)
    bool templated = false;
    if (!churn && !pf.inserters_only_new_keys && (pf.force_templates || c.chance(pair || dense ? 2 : 1, 3))) {
        templated = true;
        unsigned r = n == 0 ? 0 : c.range(0, n - 1);
        if (n != 0 && c.chance(1, 3)) { r = c.flip() ? 0 : n - 1; }
        if (v2 && n != 0 && pf.scanner_thread && c.chance(1, 5)) {
            // a right-to-left read starts at the right end of the layer: race it against a writer on the last key / last border
            force_r2l = true;
            r = n - 1;
        }
        if (dense) {
            // K in the full border or next to it; K2 = an absent key of K's border (its put splits the full border)
            int rr = static_cast<int>(8 * dense_b) - 2 + static_cast<int>(c.range(0, 11));
            r = static_cast<unsigned>(rr < 0 ? 0 : (rr >= static_cast<int>(n) ? static_cast<int>(n) - 1 : rr));
        }
        std::string K = n == 0 ? ctr_key(s.prefix, 1, width) : present_at(r);
        std::string K2 = ctr_key(s.prefix, 2 * r + (c.flip() ? 0 : 2), width);
        if (dense) { K2 = K + "a"; }
        if (sparse && !s.pre_removed.empty()) {
            // K's neighbours in key order: the next kept key (its border is K's right sibling) or a removed key of K's own border
            K2 = c.flip() ? present_at(r + 1) : s.pre_removed[c.range(0, static_cast<std::uint32_t>(s.pre_removed.size() - 1))];
        }
        std::string K3 = K;
        K3.resize(s.prefix.size() + 8, 'x');
        K3 += "1"; // a key below K's slice: needs a new layer
        s.threads.assign(2, {});
        auto point = [&](OpK k, const std::string& key) {
            Op o;
            o.kind = k;
            o.key = key;
            if (k == OpK::Put || k == OpK::PutUnique) { o.wid = id++; }
            return o;
        };
        // thread 0
        const bool split_vs_unlink = dense_thin && !pf.scanner_thread && pf.w_remove > 0 && c.flip();
        if (split_vs_unlink) {
            // a put that splits the full border against the remove that unlinks its one-key right neighbour (the remover locks the
            // border left of the neighbour, which is the new border of the split)
            K = present_at(8 * dense_b + c.range(0, 7));
            K2 = K + "a";
            s.threads[0].push_back(point(OpK::Put, K2));
            s.threads[1].push_back(point(OpK::Remove, ctr_key(s.prefix, 2 * (8 * (dense_b + 1)) + 1, width)));
        } else if (pf.scanner_thread || (pf.w_scan + pf.w_cursor > 0 && c.chance(1, 3))) {
            Op o;
            gen_range_op(o, pf.w_cursor > pf.w_scan ? true : (pf.w_cursor == 0 ? false : c.flip()));
            force_r2l = false;
            if (v2 && n != 0 && c.chance(1, 3)) {
                // the read starts exactly at K (INCLUSIVE): the exact-hit path of the first lookup races with the writer on K
                const bool from_right = o.r2l && o.kind == OpK::Cursor;
                if (!from_right) {
                    o.l = K;
                    o.le = scan_endpoint::INCLUSIVE;
                    if (o.re != scan_endpoint::INF && o.r <= o.l) { o.re = scan_endpoint::INF; }
                } else {
                    o.r = K;
                    o.re = scan_endpoint::INCLUSIVE;
                    if (o.le != scan_endpoint::INF && o.r <= o.l) { o.le = scan_endpoint::INF; }
                }
            }
            s.threads[0].push_back(o);
        } else {
            switch (c.weighted({pf.w_get * 3, pf.w_put, pf.w_put_unique, pair ? pf.w_remove * 6 : pf.w_remove})) {
                case 0: s.threads[0].push_back(point(OpK::Get, K)); break;
                case 1: s.threads[0].push_back(point(OpK::Put, K)); break;
                case 2: s.threads[0].push_back(point(OpK::PutUnique, c.flip() ? K : K2)); break;
                default: s.threads[0].push_back(point(OpK::Remove, K));
            }
            if (c.chance(1, 3)) { s.threads[0].push_back(point(OpK::Get, c.flip() ? K : K2)); }
        }
        // thread 1
        if (!split_vs_unlink)
        switch (dense && c.flip() ? 2U : (v2 && upper_full && c.flip() ? 13U : (v2 ? c.range(0, 12) : c.range(0, 9)))) {
            case 13: // a put into the FULL border of the upper layer (it splits and re-parents the layer below) against thread 0's
                     // operation inside that layer (a remove that collapses the layer's interior root promotes a new layer root)
                s.threads[1].push_back(point(OpK::Put, c.flip() ? s.prefix.substr(0, 8) : std::string(1, 'a') + std::string(1, static_cast<char>('0' + c.range(0, 9)))));
                break;
            case 10: // a writer in the neighbouring border while K's border is emptied / unlinked / the interior above collapses
                s.threads[1].push_back(point(c.flip() ? OpK::Put : OpK::Remove, n == 0 ? K2 : present_at(r + 1)));
                break;
            case 11:
                s.threads[1].push_back(point(OpK::Remove, n == 0 ? K2 : present_at(r + 1)));
                s.threads[1].push_back(point(OpK::Put, n == 0 ? K2 : present_at(r + 1)));
                break;
            case 12:
                s.threads[1].push_back(point(OpK::Put, K2));
                s.threads[1].push_back(point(OpK::Remove, n == 0 ? K2 : present_at(r + 1)));
                break;
            case 0:
                s.threads[1].push_back(point(OpK::Remove, K));
                s.threads[1].push_back(point(OpK::Put, K2)); // takes the slot K just freed
                break;
            case 1:
                s.threads[1].push_back(point(OpK::Remove, K));
                s.threads[1].push_back(point(OpK::Put, K));
                break;
            case 2: s.threads[1].push_back(point(OpK::Put, K2)); break; // splits a full border
            case 3: s.threads[1].push_back(point(OpK::Remove, K)); break;
            case 4: s.threads[1].push_back(point(OpK::Put, K)); break;
            case 5:
                s.threads[1].push_back(point(OpK::Remove, K));
                s.threads[1].push_back(point(OpK::Put, K3)); // the freed slot becomes a link
                break;
            case 6:
                s.threads[1].push_back(point(OpK::Put, K3));
                s.threads[1].push_back(point(OpK::Remove, K3)); // creates and unlinks a next layer
                break;
            case 7:
                s.threads[1].push_back(point(OpK::Put, K2));
                s.threads[1].push_back(point(OpK::Remove, K2));
                break;
            case 8:
                s.threads[1].push_back(point(OpK::PutUnique, K2));
                s.threads[1].push_back(point(OpK::Remove, K));
                break;
            default:
                s.threads[1].push_back(point(OpK::Remove, K));
                s.threads[1].push_back(point(OpK::PutUnique, K));
        }
        if (pf.w_remove == 0) {
            for (auto& o : s.threads[1]) {
                if (o.kind == OpK::Remove) {
                    o.kind = OpK::Put;
                    o.wid = id++;
                }
            }
        }
        s.family += "+template";
        for (auto* k : {&K, &K2, &K3}) {
            if (std::find(s.hot.begin(), s.hot.end(), *k) == s.hot.end()) { s.hot.push_back(*k); }
        }
        // optionally a third, freely generated thread
        if (!pf.force_templates && pf.max_threads >= 3 && c.chance(1, 3)) {
            s.threads.resize(3);
        }
        nt = static_cast<unsigned>(s.threads.size());
    }
    // ---- C06 template: a narrow scan around a stored key K against remove(K); put(K2 new, same border); put(K): the border contributes a
    // tuple in the first pass, nothing in the re-read, and K is inserted again afterwards
    if (pf.inserters_only_new_keys && n >= 2 && !sparse && (pf.force_templates ? c.flip() : c.chance(1, 4))) {
        templated = true;
        unsigned r = c.range(0, n - 1);
        std::string K = present_at(r);
        std::string K2 = ctr_key(s.prefix, 2 * r + (c.flip() ? 0 : 2), width);
        s.threads.assign(2, {});
        Op sc0;
        sc0.kind = pf.w_cursor > pf.w_scan ? OpK::Cursor : OpK::Scan;
        sc0.l = K;
        sc0.r = c.flip() ? K : present_at(r + (r + 1 < n ? 1 : 0));
        if (sc0.r < sc0.l) { sc0.r = sc0.l; }
        sc0.le = scan_endpoint::INCLUSIVE;
        sc0.re = scan_endpoint::INCLUSIVE;
        sc0.nvv = true;
        s.threads[0].push_back(sc0);
        auto mk = [&](OpK k, const std::string& key) {
            Op o;
            o.kind = k;
            o.key = key;
            if (k == OpK::Put || k == OpK::PutUnique) { o.wid = id++; }
            return o;
        };
        s.threads[1].push_back(mk(OpK::Remove, K));
        if (c.chance(3, 4)) { s.threads[1].push_back(mk(OpK::Put, K2)); }
        s.threads[1].push_back(mk(c.flip() ? OpK::Put : OpK::PutUnique, K));
        s.family += "+reinsert_template";
        nt = 2;
    }
    // ---- C06 template: a scan that starts in the gap behind the last key of a border (that border is recorded without contributing a
    // tuple) and continues through the next borders, against inserts of the gap key and of a new key in the following border
    if (!templated && pf.inserters_only_new_keys && fam == 4 && !sparse && !dense && n >= 17 && width == 1 && (pf.force_templates || c.chance(1, 3))) {
        templated = true;
        unsigned nb = (n - 1) / 8; // ascending setup inserts leave borders of 8 keys (the last one holds the rest)
        unsigned b = c.range(0, nb > 1 ? nb - 2 : 0);
        std::string G = ctr_key(s.prefix, 16 * b + 16, width);                         // sorts behind the last key of border b
        std::string X = ctr_key(s.prefix, 16 * b + 18 + 2 * c.range(0, 5), width);     // absent key inside border b+1
        s.threads.assign(2, {});
        Op sc0;
        sc0.kind = pf.w_cursor > pf.w_scan ? OpK::Cursor : OpK::Scan;
        sc0.l = G;
        sc0.le = c.flip() ? scan_endpoint::INCLUSIVE : scan_endpoint::EXCLUSIVE;
        if (c.chance(1, 2)) {
            sc0.re = scan_endpoint::INF;
        } else {
            sc0.r = ctr_key(s.prefix, 16 * b + 33 + 2 * c.range(0, 7), width);
            sc0.re = scan_endpoint::INCLUSIVE;
        }
        sc0.nvv = true;
        s.threads[0].push_back(sc0);
        auto ins = [&](const std::string& key) {
            Op o;
            o.kind = c.flip() ? OpK::Put : OpK::PutUnique;
            o.key = key;
            o.wid = id++;
            return o;
        };
        std::string G2 = sc0.le == scan_endpoint::INCLUSIVE ? G : G + "a"; // a key of the interval that lands in border b
        if (c.flip()) {
            s.threads[1].push_back(ins(G2));
            s.threads[1].push_back(ins(X));
        } else {
            s.threads[1].push_back(ins(X));
            s.threads[1].push_back(ins(G2));
        }
        s.family += "+gap_template";
        nt = 2;
    }
    for (unsigned t = churn ? nt : (templated ? 2 : 0); t < nt; ++t) {
        unsigned nops = 1 + c.range(0, pf.max_ops - 1);
        bool reader = pf.scanner_thread && t == 0;
        for (unsigned i = 0; i < nops; ++i) {
            Op o;
            if (reader) {
                gen_range_op(o, pf.w_cursor > pf.w_scan ? true : (pf.w_cursor == 0 ? false : c.flip()));
                s.threads[t].push_back(o);
                if (i >= 1) { break; } // at most two range reads per reader
                continue;
            }
            unsigned wscan = pf.scanner_thread ? 0 : pf.w_scan;
            unsigned wcur = pf.scanner_thread ? 0 : pf.w_cursor;
            std::size_t k = c.weighted({pf.w_put, pf.w_put_unique, pf.w_get, pf.w_remove, wscan, wcur});
            if (k >= 4) {
                gen_range_op(o, k == 5);
                s.threads[t].push_back(o);
                continue;
            }
            o.kind = static_cast<OpK>(k);
            o.key = s.hot[c.range(0, static_cast<std::uint32_t>(s.hot.size() - 1))];
            if (pf.inserters_only_new_keys) {
                // inserts of distinct absent keys; removes of stored keys that no one inserts
                bool present = s.init_val.count(o.key) != 0 && !s.emptied;
                if (o.kind == OpK::Put || o.kind == OpK::PutUnique) {
                    if (present || fresh_used.count(o.key) != 0) {
                        // make it a fresh neighbour
                        o.key += std::string(1, static_cast<char>('a' + (fresh_used.size() % 20)));
                        if (fresh_used.count(o.key) != 0 || s.init_val.count(o.key) != 0) { continue; }
                    }
                    fresh_used.insert(o.key);
                } else if (o.kind == OpK::Remove) {
                    if (!present) {
                        if (s.init_keys.empty()) { continue; }
                        o.key = s.init_keys[c.range(0, static_cast<std::uint32_t>(s.init_keys.size() - 1))];
                    }
                    if (fresh_used.count(o.key) != 0) { continue; }
                }
            }
            if (o.kind == OpK::Put || o.kind == OpK::PutUnique) { o.wid = id++; }
            s.threads[t].push_back(o);
        }
    }
    // open finding C10/cursor_start_tuple_inserted: a writer inserts the cursor's start tuple.  Excluded by construction in 9 of
    // 10 cases (the conflicting put is dropped) so that the search continues behind it.
    for (std::size_t t = 0; t < s.threads.size(); ++t) {
        for (auto& o : s.threads[t]) {
            if (o.kind != OpK::Cursor) { continue; }
            for (std::size_t u = 0; u < s.threads.size(); ++u) {
                if (u == t) { continue; }
                auto& ops = s.threads[u];
                for (std::size_t i = 0; i < ops.size();) {
                    if ((ops[i].kind == OpK::Put || ops[i].kind == OpK::PutUnique) && start_tuple_conflict(s, o, ops[i].key) && c.range(0, 9) != 0) {
                        ops.erase(ops.begin() + static_cast<long>(i));
                        if (record) { ++st.excluded_by_construction; }
                    } else {
                        ++i;
                    }
                }
            }
        }
    }
    s.max_id = id;
    if (v2 && pf.conflict_bias && c.chance(1, 3)) { s.conflict_bias = true; }
    return s;
}

// ---- lock-ownership monitor: a node lock taken by lock() belongs to that thread until its unlock(); a plain store of a version word
// (set_body: used for nodes that are not published yet) must never hit a word that another thread holds locked
struct LockMonitor {
    std::unordered_map<const void*, int> owner;
    std::unordered_map<const void*, unsigned> lockers; // threads (bit set) that took this lock with lock() in the current run
    std::string error;
    void reset() {
        owner.clear();
        lockers.clear();
        error.clear();
    }
};
inline LockMonitor* g_lock_monitor = nullptr;
inline void lock_event_sink(int ev, const void* obj, std::uint64_t a, std::uint64_t b) {
    LockMonitor* m = g_lock_monitor;
    if (m == nullptr || sched::tl_self == nullptr) { return; }
    const int me = sched::tl_self->id;
    if (ev == yakushima::verif::EV_LOCK_ACQ) {
        m->owner[obj] = me;
        m->lockers[obj] |= 1U << static_cast<unsigned>(me & 31);
    } else if (ev == yakushima::verif::EV_LOCK_REL) {
        m->owner.erase(obj);
    } else if (ev == yakushima::verif::EV_VERSION_STORE) {
        auto it = m->owner.find(obj);
        if (it != m->owner.end() && it->second != me && a != 0 && m->error.empty()) {
            m->error = "T" + std::to_string(me) + " overwrote the version word of a node with a plain store while T" + std::to_string(it->second) +
                       " holds its lock (taken with lock())";
        }
        // plain stores initialise nodes nobody else can reach yet (a fresh node, the new sibling of a split before it is linked): a
        // word that another thread has already locked in this run is reachable, so the store races with lock() / unlock() on it
        auto lk = m->lockers.find(obj);
        if (lk != m->lockers.end() && (lk->second & ~(1U << static_cast<unsigned>(me & 31))) != 0 && m->error.empty()) {
            m->error = "T" + std::to_string(me) + " wrote the version word of a node with a plain store although another thread has already taken that node's lock in this run " +
                       "(the node was reachable before its version word was initialised)";
        }
        if (b != 0) {
            m->owner[obj] = me;
        } else {
            m->owner.erase(obj);
        }
    }
}

inline std::string* g_check_created_ptr = nullptr; // C15: where to report a wrong created_value_ptr (null: not requested)
inline status do_put(Token tok, const std::string& key, std::uint32_t id, bool unique) {
    if (g_inline_values) {
        std::uintptr_t w = id;
        return put<std::uintptr_t>(tok, "s", key, &w, sizeof(w), static_cast<std::uintptr_t**>(nullptr),
                                   static_cast<value_align_type>(alignof(std::uintptr_t)), unique, static_cast<inserted_node_info*>(nullptr));
    }
    std::string v = value_of(id);
    if (g_check_created_ptr != nullptr) {
        // created_value_ptr designates the copy stored by THIS put (whatever other writers do to the key meanwhile)
        char* created = nullptr;
        status rc = put<char>(tok, "s", key, v.data(), v.size(), &created, static_cast<value_align_type>(1), unique, static_cast<inserted_node_info*>(nullptr));
        if (rc == status::OK) {
            sched::NoYield g;
            if (created == nullptr || std::memcmp(created, v.data(), v.size()) != 0) {
                if (g_check_created_ptr->empty()) {
                    *g_check_created_ptr = "put(\"" + show(key) + "\", v" + std::to_string(id) + ") returned a created_value_ptr that " +
                                           (created == nullptr ? "is null" : "does not hold the bytes this put stored");
                }
            }
        }
        return rc;
    }
    return put<char>(tok, "s", key, v.data(), v.size(), static_cast<char**>(nullptr), static_cast<value_align_type>(1), unique,
                     static_cast<inserted_node_info*>(nullptr));
}

// ---- execution --------------------------------------------------------------------------------------
struct Exec {
    const Scenario& sc;
    std::vector<std::vector<HOp>> hist;        // per thread
    std::vector<std::vector<ScanRecord>> scans; // per thread
    std::vector<std::string> errors;            // per-thread immediate failures (statuses that are never legal)
    struct MissRec {
        int thread;
        std::string key;
        std::pair<node_version64_body, node_version64*> cv;
        std::uint64_t inv, resp;
    };
    std::vector<std::vector<MissRec>> misses; // get-miss with checked_version, per thread
    // pointers a thread obtained from get / scan and still holds: while its session is open the stored copy behind such a pointer is
    // neither reclaimed (C07) nor modified (an overwrite installs a new block): re-read at every later op boundary of that thread
    struct Held {
        const void* p;
        std::size_t len;
        std::uint32_t id;
        std::string key;
    };
    std::vector<std::vector<Held>> held;
    std::vector<std::string> value_errors;
    sched::Scheduler& S;

    explicit Exec(const Scenario& s) : sc(s), hist(s.threads.size()), scans(s.threads.size()), errors(s.threads.size()), misses(s.threads.size()), held(s.threads.size()), value_errors(s.threads.size()), S(sched::Scheduler::get()) {}

    void recheck_held(std::size_t t) {
        if (g_inline_values) { return; }
        sched::NoYield g;
        for (auto& h : held[t]) {
            std::uint32_t now = identify(h.p, h.len, true, sc.max_id);
            if (now != h.id && value_errors[t].empty()) {
                value_errors[t] = "the bytes behind a pointer returned for \"" + show(h.key) + "\" (value v" + std::to_string(h.id) + ", " + std::to_string(h.len) +
                                  " bytes) changed while the reader's session was still open: now " +
                                  (now == 0xfffffffeU ? std::string("a mixture / unknown bytes") : "value v" + std::to_string(now));
            }
        }
    }

    void body(std::size_t t) {
        Token tok{};
        while (enter(tok) != status::OK) {}
        for (auto& o : sc.threads[t]) {
            sched::op_boundary();
            recheck_held(t);
            switch (o.kind) {
                case OpK::Put:
                case OpK::PutUnique: {
                    HOp h;
                    h.thread = static_cast<int>(t);
                    h.kind = o.kind == OpK::Put ? HKind::Put : HKind::PutUnique;
                    h.key = o.key;
                    h.wid = o.wid;
                    h.inv = S.now();
                    status rc = do_put(tok, o.key, o.wid, o.kind == OpK::PutUnique);
                    h.resp = S.now();
                    if (rc == status::OK) {
                        h.res = HRes::Ok;
                    } else if (rc == status::WARN_UNIQUE_RESTRICTION) {
                        h.res = HRes::UniqueRestriction;
                    } else {
                        errors[t] = "put returned " + std::string(to_string_view(rc));
                    }
                    hist[t].push_back(h);
                    break;
                }
                case OpK::Get: {
                    HOp h;
                    h.thread = static_cast<int>(t);
                    h.kind = HKind::Get;
                    h.key = o.key;
                    std::pair<char*, std::size_t> out{nullptr, 0};
                    std::pair<node_version64_body, node_version64*> cv{};
                    h.inv = S.now();
                    status rc = get<char>("s", o.key, out, &cv);
                    h.resp = S.now();
                    if (rc == status::WARN_NOT_EXIST) { misses[t].push_back({static_cast<int>(t), o.key, cv, h.inv, h.resp}); }
                    if (rc == status::OK) {
                        h.res = HRes::Ok;
                        sched::NoYield g;
                        h.rid = identify(out.first, out.second, true, sc.max_id);
                        if (h.rid < 0xfffffffeU && held[t].size() < 8) { held[t].push_back({out.first, out.second, h.rid, o.key}); }
                    } else if (rc == status::WARN_NOT_EXIST) {
                        h.res = HRes::NotExist;
                    } else {
                        errors[t] = "get returned " + std::string(to_string_view(rc));
                    }
                    hist[t].push_back(h);
                    break;
                }
                case OpK::Remove: {
                    HOp h;
                    h.thread = static_cast<int>(t);
                    h.kind = HKind::Remove;
                    h.key = o.key;
                    h.inv = S.now();
                    status rc = remove(tok, "s", o.key);
                    h.resp = S.now();
                    if (rc == status::OK) {
                        h.res = HRes::Ok;
                    } else if (rc == status::OK_NOT_FOUND) {
                        h.res = HRes::NotFound;
                    } else {
                        errors[t] = "remove returned " + std::string(to_string_view(rc));
                    }
                    hist[t].push_back(h);
                    break;
                }
                case OpK::Scan: {
                    ScanRecord r;
                    r.thread = static_cast<int>(t);
                    r.op = o;
                    std::vector<std::tuple<std::string, char*, std::size_t>> tl;
                    r.inv = S.now();
                    r.rc = scan<char>("s", o.l, o.le, o.r, o.re, tl, o.nvv ? &r.nvv : nullptr, o.max, o.r2l);
                    r.resp = S.now();
                    {
                        sched::NoYield g;
                        for (auto& tp : tl) {
                            std::uint32_t vid = identify(std::get<1>(tp), std::get<2>(tp), true, sc.max_id);
                            if (vid == 0xffffffffU) { r.null_value = true; }
                            r.items.emplace_back(std::get<0>(tp), vid);
                            if (vid < 0xfffffffeU && held[t].size() < 8) { held[t].push_back({std::get<1>(tp), std::get<2>(tp), vid, std::get<0>(tp)}); }
                        }
                    }
                    scans[t].push_back(std::move(r));
                    break;
                }
                case OpK::Cursor: {
                    ScanRecord r;
                    r.thread = static_cast<int>(t);
                    r.op = o;
                    iscan_context* ctx = nullptr;
                    void* val = nullptr;
                    std::function<bool(node_version64*, node_version64_body)> cb = [&r, &o](node_version64* p, node_version64_body v) {
                        if (o.nvv) { r.nvv.emplace_back(v, p); }
                        return false;
                    };
                    r.inv = S.now();
                    status rc = iscan_open("s", o.l, o.le, o.r, o.re, o.r2l, o.early_abort, ctx, val, cb);
                    std::size_t n = 0;
                    while (rc == status::OK) {
                        {
                            sched::NoYield g;
                            std::string k = ctx->full_key();
                            std::uint32_t vid = identify(val, 0, false, sc.max_id);
                            if (vid == 0xffffffffU) { r.null_value = true; }
                            r.items.emplace_back(k, vid);
                        }
                        r.step_resp.push_back(S.now());
                        ++n;
                        if (o.stop_after != 0 && n >= o.stop_after) { break; }
                        if (n > 600) { break; }
                        sched::op_boundary();
                        rc = iscan_next(ctx, val, cb);
                    }
                    r.final_rc = rc;
                    r.rc = rc;
                    r.resp = S.now();
                    if (ctx != nullptr) { iscan_close(ctx); }
                    scans[t].push_back(std::move(r));
                    break;
                }
            }
        }
        sched::op_boundary();
        recheck_held(t);
        leave(tok);
    }
};

inline bool in_interval(const std::string& k, const Op& o) {
    if (o.le != scan_endpoint::INF) {
        int c = k.compare(o.l);
        if (c < 0 || (c == 0 && o.le == scan_endpoint::EXCLUSIVE)) { return false; }
    }
    if (o.re != scan_endpoint::INF) {
        int c = k.compare(o.r);
        if (c > 0 || (c == 0 && o.re == scan_endpoint::EXCLUSIVE)) { return false; }
    }
    return true;
}

inline void reset_library() {
    destroy();
    for (auto& ti : thread_info_table::get_thread_info_table()) {
        ti.get_gc_info().fin();
        if (ti.get_running()) {
            ti.set_begin_epoch(0);
            ti.set_running(false);
        }
    }
}

// execute one scenario under the schedule given by `bytes` (or by Scheduler::script when use_script is set) and judge it
inline vf::CaseResult run_scenario(const Profile& pf, const Scenario& sc, const std::vector<std::uint8_t>& bytes, bool record, vf::Stats& st) {
    vf::heartbeat(); // enumeration stages execute thousands of schedules per case: the watchdog times each execution

    vf::CaseResult res;
    auto& S = sched::Scheduler::get();
    std::string trace_note;
    try {
        // ---- setup (unscheduled, main thread)
        if (create_storage("s") != status::OK) { throw Fail{"harness", "create_storage failed"}; }
        {
            Token tok{};
            enter(tok);
            if (!sc.setup_order.empty()) {
                for (auto& k : sc.setup_order) {
                    auto it = sc.init_val.find(k);
                    if (do_put(tok, k, it != sc.init_val.end() ? it->second : 1, false) != status::OK) { throw Fail{"harness", "setup put failed"}; }
                }
                for (auto& k : sc.setup_order) {
                    if (sc.init_val.count(k) == 0) { remove(tok, "s", k); }
                }
            } else {
                for (auto& k : sc.init_keys) {
                    if (do_put(tok, k, sc.init_val.at(k), false) != status::OK) { throw Fail{"harness", "setup put failed"}; }
                }
            }
            if (sc.emptied) {
                for (auto& k : sc.init_keys) { remove(tok, "s", k); }
            }
            if (!sc.pre_removed.empty()) {
                // build the dense tree in key order first, then thin it out
                std::vector<std::string> all = sc.pre_removed;
                std::sort(all.begin(), all.end());
                for (auto& k : all) {
                    if (do_put(tok, k, 1, false) != status::OK) { throw Fail{"harness", "setup put failed"}; }
                }
                for (auto& k : sc.pre_removed) { remove(tok, "s", k); }
            }
            leave(tok);
        }
        std::map<std::string, std::uint32_t> initial;
        if (!sc.emptied) { initial = sc.init_val; }
        tree_instance* ti{};
        find_storage("s", &ti);
        // layer roots before the run (open finding classification for cursors)
        std::map<std::string, base_node*> roots_before;
        if (pf.w_cursor != 0) { roots_before = vf::walk(ti).layer_roots; }
        // trigger of the open finding C10/cursor_layer_root_replaced_skip for a key: the root node of a layer (>= 1) on the key's
        // path, as recorded before the run, lost its root flag (root split) or is a deleted interior (collapsed).  Every layer
        // above the key's own counts: the cursor resumes each stacked layer from its saved root.
        auto layer_root_replaced = [&roots_before](const std::string& key) {
            if (key.size() <= 8) { return false; }
            for (std::size_t d = 1; d <= (key.size() - 1) / 8; ++d) {
                auto it = roots_before.find(key.substr(0, 8 * d));
                if (it == roots_before.end() || it->second == nullptr) { continue; }
                node_version64_body rv = it->second->get_version();
                if ((!rv.get_root() && !rv.get_deleted()) || (rv.get_deleted() && !rv.get_border())) { return true; }
            }
            return false;
        };
        // ---- scheduled run
        static LockMonitor lock_monitor;
        lock_monitor.reset();
#ifdef VF_ALLOC_TRACK
        const bool monitor_locks = false; // the owner table would be charged to the case by the allocation oracle
#else
        const bool monitor_locks = vf::g_decoder >= 2 && (pf.prop == "C09" || pf.prop == "C08" || pf.prop == "C01");
#endif
        if (monitor_locks) {
            g_lock_monitor = &lock_monitor;
            vf::g_event_sink = lock_event_sink;
        }
        std::string created_ptr_error;
        g_check_created_ptr = (pf.prop == "C15" && vf::g_decoder >= 2) ? &created_ptr_error : nullptr;
        Exec ex(sc);
        std::vector<std::function<void()>> bodies;
        for (std::size_t t = 0; t < sc.threads.size(); ++t) {
            bodies.emplace_back([&ex, t] { ex.body(t); });
        }
        S.step_limit = 400000;
#ifdef VF_ALLOC_TRACK
        S.conflict_bias = false; // the access table would be charged to the case by the allocation oracle
#else
        S.conflict_bias = sc.conflict_bias;
#endif
        S.clock = 0;
        sched::RevBytes rb(bytes.data(), bytes.size());
        sched::Outcome oc = S.run(std::move(bodies), rb);
        if (oc == sched::Outcome::Released) {
            g_check_created_ptr = nullptr;
            if (monitor_locks) {
                g_lock_monitor = nullptr;
                vf::g_event_sink = nullptr;
            }
            res.inconclusive = true;
            if (std::getenv("VF_DEBUG_INCONCLUSIVE") != nullptr) { std::fprintf(stderr, "INCONCLUSIVE (step budget)\n%s", sc.text().c_str()); }
            reset_library();
            return res;
        }
        std::string sc_text = sc.text() + " schedule: steps=" + std::to_string(S.steps) + " switches=" + std::to_string(S.switches) +
                              " preemptions=" + std::to_string(S.preemptions) + " spin_blocks=" + std::to_string(S.spin_blocks) + "\n";
        auto failx = [&](const std::string& sig, const std::string& msg) { throw Fail{sig, msg + "\n--- scenario ---\n" + sc_text}; };
        for (std::size_t t = 0; t < ex.errors.size(); ++t) {
            if (!ex.errors[t].empty()) { failx("illegal_status", "T" + std::to_string(t) + ": " + ex.errors[t]); }
        }
        g_check_created_ptr = nullptr;
        if (monitor_locks) {
            g_lock_monitor = nullptr;
            vf::g_event_sink = nullptr;
            if (!lock_monitor.error.empty()) { failx("node_lock_overwritten", lock_monitor.error); }
        }
        if (!created_ptr_error.empty()) { failx("created_ptr_wrong", created_ptr_error); }
        if (pf.judge_history) {
            for (std::size_t t = 0; t < ex.value_errors.size(); ++t) {
                if (!ex.value_errors[t].empty()) { failx("value_changed_under_reader", "T" + std::to_string(t) + ": " + ex.value_errors[t]); }
            }
        }
        // ---- quiescent observations (main thread)
        std::set<std::string> universe(sc.init_keys.begin(), sc.init_keys.end());
        for (auto& t : sc.threads) {
            for (auto& o : t) {
                if (o.kind == OpK::Put || o.kind == OpK::PutUnique || o.kind == OpK::Get || o.kind == OpK::Remove) { universe.insert(o.key); }
            }
        }
        std::vector<HOp> history;
        for (auto& h : ex.hist) { history.insert(history.end(), h.begin(), h.end()); }
        const std::uint64_t t_end = S.now();
        std::map<std::string, std::uint32_t> final_state;
        for (auto& k : universe) {
            std::pair<char*, std::size_t> out{nullptr, 0};
            status rc = get<char>("s", k, out);
            HOp h;
            h.thread = -1;
            h.kind = HKind::Read;
            h.key = k;
            h.inv = t_end;
            h.resp = t_end + 1;
            h.note = "final";
            if (rc == status::OK) {
                h.res = HRes::Ok;
                h.rid = identify(out.first, out.second, true, sc.max_id);
                final_state[k] = h.rid;
            } else if (rc == status::WARN_NOT_EXIST) {
                h.res = HRes::NotExist;
            } else {
                failx("illegal_status", "final get returned " + std::string(to_string_view(rc)));
            }
            history.push_back(h);
        }
        S.clock += 2;
        // ---- value sanity of point reads (C01: never null or torn)
        for (auto& h : history) {
            if (!pf.judge_history) { break; }
            if (h.kind == HKind::Get && h.res == HRes::Ok) {
                if (h.rid == 0xffffffffU) {
                    // classify: overlapping remove of the same key?
                    bool overlap_remove = false;
                    for (auto& g : history) {
                        if (g.kind == HKind::Remove && g.key == h.key && g.inv < h.resp && h.inv < g.resp) { overlap_remove = true; }
                    }
                    failx(overlap_remove ? "null_value_concurrent_remove" : "null_value", "get(\"" + show(h.key) + "\") returned OK with a null value pointer");
                }
                if (h.rid == 0xfffffffeU) { failx("torn_value", "get(\"" + show(h.key) + "\") returned bytes that no put wrote"); }
            }
        }
        // ---- scans / cursors: local properties + pseudo-reads
        bool scan_overlapped_writer = false;
        bool insert_overlapped_scan = false;
        for (auto& per_thread : ex.scans) {
            for (auto& r : per_thread) {
                const Op& o = r.op;
                const bool cursor = o.kind == OpK::Cursor;
                if (!pf.judge_history) { continue; }
                if (!cursor && r.rc != status::OK) { failx("illegal_status", "scan returned " + std::string(to_string_view(r.rc))); }
                if (cursor && r.final_rc != status::OK && r.final_rc != status::OK_SCAN_END &&
                    !(r.final_rc == status::WARN_CONCURRENT_OPERATIONS && o.early_abort)) {
                    failx("illegal_status", "cursor returned " + std::string(to_string_view(r.final_rc)));
                }
                // order, interval, values
                for (std::size_t i = 0; i < r.items.size(); ++i) {
                    auto& [k, vid] = r.items[i];
                    if (!in_interval(k, o)) { failx("range_out_of_interval", std::string(cursor ? "cursor" : "scan") + " returned \"" + show(k) + "\" outside the interval"); }
                    if (i > 0) {
                        bool ok = o.r2l && cursor ? k < r.items[i - 1].first : r.items[i - 1].first < k;
                        if (!ok) { failx("range_not_monotone", std::string(cursor ? "cursor" : "scan") + " returned \"" + show(k) + "\" after \"" + show(r.items[i - 1].first) + "\""); }
                    }
                    if (vid == 0xffffffffU) {
                        bool overlap_remove = false;
                        for (auto& g : history) {
                            if (g.kind == HKind::Remove && g.key == k && g.inv < r.resp && r.inv < g.resp) { overlap_remove = true; }
                        }
                        failx(overlap_remove && !cursor ? "null_value_concurrent_remove" : "null_value",
                              std::string(cursor ? "cursor" : "scan") + " returned key \"" + show(k) + "\" with a null value");
                    }
                    if (vid == 0xfffffffeU) { failx("torn_value", std::string(cursor ? "cursor" : "scan") + " returned bytes that no put wrote for \"" + show(k) + "\""); }
                }
                if (!cursor && o.max != 0 && r.items.size() > o.max) { failx("range_too_many", "scan returned more than max_size entries"); }
                // judged range
                std::map<std::string, std::uint32_t> got(r.items.begin(), r.items.end());
                if (!cursor) {
                    bool truncated = o.max != 0 && r.items.size() >= o.max;
                    for (auto& k : universe) {
                        if (!in_interval(k, o)) { continue; }
                        if (truncated) {
                            if (!o.r2l && k > r.items.back().first) { continue; }
                            if (o.r2l && k < r.items.back().first) { continue; }
                        }
                        HOp h;
                        h.thread = r.thread;
                        h.kind = HKind::Read;
                        h.key = k;
                        h.inv = r.inv;
                        h.resp = r.resp;
                        h.note = "scan";
                        auto it = got.find(k);
                        if (it != got.end()) {
                            h.res = HRes::Ok;
                            h.rid = it->second;
                        } else {
                            h.res = HRes::NotExist;
                        }
                        history.push_back(h);
                    }
                } else {
                    // cursor: returned entries and skipped keys are reads over [open, response of the passing step]
                    std::string prev;
                    bool have_prev = false;
                    for (std::size_t i = 0; i <= r.items.size(); ++i) {
                        bool last_round = i == r.items.size();
                        if (last_round && r.final_rc != status::OK_SCAN_END) { break; }
                        std::uint64_t resp = last_round ? r.resp : r.step_resp[i];
                        const std::string* cur = last_round ? nullptr : &r.items[i].first;
                        for (auto& k : universe) {
                            if (!pf.cursor_skip_reads) { break; }
                            if (!in_interval(k, o)) { continue; }
                            bool passed = false; // k lies strictly between prev and cur in iteration order
                            if (!o.r2l) {
                                passed = (!have_prev || k > prev) && (cur == nullptr || k < *cur);
                            } else {
                                passed = (!have_prev || k < prev) && (cur == nullptr || k > *cur);
                            }
                            if (!passed) { continue; }
                            HOp h;
                            h.thread = r.thread;
                            h.kind = HKind::Read;
                            h.key = k;
                            h.inv = r.inv;
                            h.resp = resp;
                            h.res = HRes::NotExist;
                            h.note = "cursor-skip";
                            history.push_back(h);
                        }
                        if (!last_round) {
                            HOp h;
                            h.thread = r.thread;
                            h.kind = HKind::Read;
                            h.key = *cur;
                            h.inv = r.inv;
                            h.resp = resp;
                            h.res = HRes::Ok;
                            h.rid = r.items[i].second;
                            h.note = "cursor";
                            history.push_back(h);
                            prev = *cur;
                            have_prev = true;
                        }
                    }
                }
                // C06: every successful insert into the covered interval is in the result or leaves a stale pair
                if (o.nvv && (pf.prop == "C06" || pf.prop == "C10")) {
                    bool complete = cursor ? (r.final_rc == status::OK_SCAN_END) : !(o.max != 0 && r.items.size() >= o.max);
                    bool stale = false;
                    for (auto& [v, p] : r.nvv) {
                        if (p->get_stable_version() != v) { stale = true; }
                    }
                    for (auto& h : history) {
                        if ((h.kind != HKind::Put && h.kind != HKind::PutUnique) || h.res != HRes::Ok) { continue; }
                        if (!in_interval(h.key, o)) { continue; }
                        // which puts are certainly inserts of a key that was absent?
                        //  (A) the key is absent initially and nobody ever removes it, or
                        //  (B) the same thread removed it (OK) just before, as its previous operation on that key, and no other thread
                        //      writes that key at all (program order then makes the put an insert)
                        bool reinsert = false;
                        if (initial.count(h.key) != 0) {
                            const HOp* prev_same = nullptr;
                            bool others_write = false;
                            for (auto& g : history) {
                                if (g.key != h.key || g.thread < 0 || &g == &h) { continue; }
                                if (g.kind == HKind::Get || g.kind == HKind::Read) { continue; }
                                if (g.thread != h.thread) {
                                    others_write = true;
                                } else if (g.resp < h.inv && (prev_same == nullptr || g.resp > prev_same->resp)) {
                                    prev_same = &g;
                                }
                            }
                            if (others_write || prev_same == nullptr || prev_same->kind != HKind::Remove || prev_same->res != HRes::Ok) { continue; }
                            // and nothing of this thread touches the key afterwards
                            bool later = false;
                            for (auto& g : history) {
                                if (g.key == h.key && g.thread == h.thread && g.inv > h.resp && g.kind != HKind::Get && g.kind != HKind::Read) { later = true; }
                            }
                            if (later) { continue; }
                            reinsert = true;
                        }
                        if (!complete) {
                            // covered part only: up to the last produced key
                            if (r.items.empty()) { continue; }
                            if (!o.r2l && h.key > r.items.back().first) { continue; }
                            if (o.r2l && h.key < r.items.back().first) { continue; }
                        }
                        // was the key removed again?  then "exists" is not claimed; only pure inserts are judged
                        bool removed_again = false;
                        for (auto& g : history) {
                            if (g.kind == HKind::Remove && g.key == h.key && !reinsert) { removed_again = true; }
                        }
                        if (removed_again) { continue; }
                        if (h.inv < r.resp && r.inv < h.resp) { insert_overlapped_scan = true; }
                        // "seen": the key is in the result (for a re-insert: with the re-inserted value, not the one removed before)
                        const bool seen = got.count(h.key) != 0 && (!reinsert || got.at(h.key) == h.wid);
                        if (!seen && !stale) {
                            failx(cursor && start_tuple_conflict(sc, o, h.key) ? "cursor_start_tuple_inserted"
                                          : (cursor && layer_root_replaced(h.key) ? "cursor_layer_root_replaced_skip" : "insert_neither_seen_nor_stale"), "insert of \"" + show(h.key) + "\" (T" + std::to_string(h.thread) + ") is not in the " +
                                                                         (cursor ? "cursor" : "scan") + " result and every recorded node version is unchanged (recorded=" +
                                                                         std::to_string(r.nvv.size()) + ")" + describe_range_read(r));
                        }
                    }
                    if (r.nvv.empty() && r.rc == status::OK && !cursor) { failx("empty_node_set", "scan returned an empty node set"); }
                }
                for (auto& h : history) {
                    if (h.thread >= 0 && h.thread != r.thread && (h.kind == HKind::Put || h.kind == HKind::PutUnique || h.kind == HKind::Remove) &&
                        h.inv < r.resp && r.inv < h.resp && in_interval(h.key, o)) {
                        scan_overlapped_writer = true;
                    }
                }
            }
        }
        // ---- C05/C06 for point reads: a get that reported WARN_NOT_EXIST with a checked version; if the key was inserted afterwards
        // (exactly one successful insert, never removed, present at the end) the recorded (version,node) pair must be stale
        if (pf.prop == "C06") {
            for (auto& per_thread : ex.misses) {
                for (auto& m : per_thread) {
                    if (initial.count(m.key) != 0) { continue; }
                    unsigned puts_ok = 0;
                    unsigned removes = 0;
                    bool put_before = false;
                    for (auto& h : history) {
                        if (h.key != m.key) { continue; }
                        if ((h.kind == HKind::Put || h.kind == HKind::PutUnique) && h.res == HRes::Ok) {
                            ++puts_ok;
                            if (h.resp < m.inv) { put_before = true; }
                        }
                        if (h.kind == HKind::Remove) { ++removes; }
                    }
                    if (puts_ok != 1 || removes != 0 || put_before || final_state.count(m.key) == 0) { continue; }
                    ++st.checks;
                    if (m.cv.second == nullptr) { failx("get_miss_without_version", "get(\"" + show(m.key) + "\") reported WARN_NOT_EXIST without a checked version"); }
                    insert_overlapped_scan = true;
                    if (m.cv.second->get_stable_version() == m.cv.first) {
                        failx("get_miss_insert_undetected", "get(\"" + show(m.key) + "\") of T" + std::to_string(m.thread) +
                                                                    " reported WARN_NOT_EXIST, the key was inserted afterwards, but the checked (version,node) pair is unchanged");
                    }
                }
            }
        }
        // ---- linearizability of every key (point ops + pseudo-reads + final state)
        std::string bad_key;
        std::string lz = pf.judge_history ? vf::check_history(history, initial, &bad_key) : std::string();
        if (!lz.empty()) {
            std::string sig = "not_linearizable";
            bool has_pseudo = false;
            bool cursor_skip = false;
            for (auto& h : history) {
                if (h.key == bad_key && h.kind == HKind::Read && h.note != "final") { has_pseudo = true; }
                if (h.key == bad_key && h.note == "cursor-skip") { cursor_skip = true; }
            }
            if (has_pseudo) { sig = cursor_skip ? "cursor_inconsistent" : "scan_inconsistent"; }
            if (cursor_skip && layer_root_replaced(bad_key)) { sig = "cursor_layer_root_replaced_skip"; }
            failx(sig, "key \"" + show(bad_key) + "\": " + lz);
        }
        // ---- quiescent coherence + structure (C08, C09)
        {
            std::vector<std::string> exp;
            for (auto& [k, v] : final_state) { exp.push_back(k); }
            std::vector<std::tuple<std::string, char*, std::size_t>> tl;
            status rc = scan<char>("s", "", scan_endpoint::INF, "", scan_endpoint::INF, tl, nullptr, 0, false);
            if (rc != status::OK) { failx("illegal_status", "final scan returned " + std::string(to_string_view(rc))); }
            std::vector<std::string> got;
            for (auto& tp : tl) { got.push_back(std::get<0>(tp)); }
            if (got != exp) { failx("quiescent_scan_differs", "full scan at quiescence differs from the point lookups (" + std::to_string(got.size()) + " vs " + std::to_string(exp.size()) + ")"); }
            std::vector<std::string> back;
            iscan_context* ctx = nullptr;
            void* val = nullptr;
            status r2 = iscan_open("s", "", scan_endpoint::INF, "", scan_endpoint::INF, true, false, ctx, val);
            while (r2 == status::OK) {
                back.push_back(ctx->full_key());
                r2 = iscan_next(ctx, val);
            }
            if (ctx != nullptr) { iscan_close(ctx); }
            std::reverse(back.begin(), back.end());
            if (back != exp) { failx("quiescent_iscan_differs", "backward iscan at quiescence differs from the point lookups"); }
            vf::WalkOut w = vf::walk(ti);
            if (!w.ok) { failx(w.err.find("locked") != std::string::npos || w.err.find("root lock") != std::string::npos ? "lock_left" : "structure", w.err); }
            std::vector<std::string> wk;
            for (auto& e : w.entries) { wk.push_back(e.key); }
            if (wk != exp) { failx("structure", "in-order walk at quiescence differs from the point lookups"); }
            for (auto& tinfo : thread_info_table::get_thread_info_table()) {
                if (tinfo.get_running()) { failx("session_left_open", "a session slot is still marked running after every thread left"); }
            }
        }
        // ---- statistics
        if (record) {
            bool overlap_same_key = false;
            for (std::size_t i = 0; i < history.size(); ++i) {
                for (std::size_t j = i + 1; j < history.size(); ++j) {
                    auto& a = history[i];
                    auto& b = history[j];
                    if (a.thread < 0 || b.thread < 0 || a.thread == b.thread || a.key != b.key) { continue; }
                    if (a.kind == HKind::Read || b.kind == HKind::Read) { continue; }
                    bool writer = a.kind != HKind::Get || b.kind != HKind::Get;
                    if (writer && a.inv < b.resp && b.inv < a.resp) { overlap_same_key = true; }
                }
            }
            bool nontrivial = false;
            if (pf.prop == "C01" || pf.prop == "C08" || pf.prop == "C09") { nontrivial = overlap_same_key && S.preemptions > 0; }
            if (pf.prop == "C04" || pf.prop == "C10") { nontrivial = scan_overlapped_writer && S.preemptions > 0; }
            if (pf.prop == "C06") { nontrivial = insert_overlapped_scan && S.preemptions > 0; }
            if (pf.prop == "C15") { nontrivial = (overlap_same_key || scan_overlapped_writer) && S.preemptions > 0; }
            st.cls("shape_" + sc.family);
            st.cls(overlap_same_key ? "overlap_same_key" : "no_overlap_same_key");
            if (S.spin_blocks > 0) { st.cls("spin_blocked"); }
            if (scan_overlapped_writer) { st.cls("range_read_overlapped_writer"); }
            if (insert_overlapped_scan) { st.cls("insert_overlapped_range_read"); }
            st.classes["_steps"] += S.steps;
            st.classes["_preemptions"] += S.preemptions;
            if (nontrivial) {
                std::uint64_t fp = vf::fnv1a(sc_text);
                fp = vf::fnv1a(S.trace.data(), S.trace.size(), fp);
                st.nontrivial(fp);
                if (st.want_sample(sc.family)) { st.sample(sc.family, sc_text); }
            }
            st.cls(nontrivial ? "_nontrivial_cases" : "_trivial_cases");
        }
    } catch (const Fail& f) {
        res.pass = false;
        res.signature = f.signature;
        res.message = f.message;
    } catch (const std::exception& e) {
        res.pass = false;
        res.signature = "uncaught_exception";
        res.message = std::string("an exception escaped from the library: ") + e.what() + "\n--- scenario ---\n" + sc.text();
    }
    reset_library();
    return res;
}

inline vf::CaseResult run_case(const vf::RunnerArgs& args, const std::vector<std::uint8_t>& bytes, bool record, vf::Stats& st) {
    static Profile pf;
    static std::string pf_key;
    if (pf_key != args.prop + "/" + args.tier + "/" + args.extra) {
        pf = make_profile(args.prop, args.tier);
        if (args.extra == "enum1" || args.extra == "enum2" || args.extra == "enum2c") {
            // bounded-exhaustive stage: two threads, few ops, every schedule with <= 1 (enum1) / <= 2 (enum2) preemptions
            pf.min_threads = pf.max_threads = 2;
            pf.max_ops = 2;
            pf.force_templates = true;
        }
        pf_key = args.prop + "/" + args.tier + "/" + args.extra;
    }
    Chooser c(bytes);
    g_varied_lengths = pf.prop == "C15";
    Scenario sc = decode(c, pf, st, record);
    g_inline_values = sc.inline_values;
    if (args.verbose) { std::fprintf(stderr, "SCENARIO\n%s", sc.text().c_str()); }
    auto& S = sched::Scheduler::get();
    S.fatal_on_step_limit = pf.prop == "C09"; // non-termination under a fair schedule is what C09 is about
    S.script_conflict_from = ~std::size_t{0};
    if (args.extra != "enum1" && args.extra != "enum2" && args.extra != "enum2c") {
        S.use_script = false;
        return run_scenario(pf, sc, bytes, record, st);
    }
    // ---- enumeration: solo runs measure the number of yield points of each thread when it runs first
    vf::CaseResult res;
    S.use_script = true;
    std::uint64_t solo[2] = {0, 0};
    for (int first = 0; first < 2; ++first) {
        S.script.clear();
        S.script_first = first;
        res = run_scenario(pf, sc, bytes, record, st);
        if (!res.pass || res.inconclusive) {
            S.use_script = false;
            return res;
        }
        solo[first] = S.yields_of(static_cast<std::size_t>(first));
    }
    const bool two = args.extra == "enum2";
    for (int first = 0; first < 2 && res.pass; ++first) {
        const int other = 1 - first;
        // enum2 / enum2c multiply the first preemption points by the second ones behind them: long operations (scans and cursors
        // over many keys) are sampled at every stride-th step so that one scenario stays within ~150 x 60 x 2 runs (not exhaustive then;
        // enum1 stays exhaustive)
        const std::uint64_t stride = (args.extra == "enum2c" || args.extra == "enum2") && solo[first] > 150 ? (solo[first] + 149) / 150 : 1;
        for (std::uint64_t p = 1; p <= solo[first] && res.pass; p += stride) {
            S.script = {{p, other}};
            S.script_first = first;
            res = run_scenario(pf, sc, bytes, record, st);
            if (record) { ++st.evaluations; }
            if (!res.pass) {
                res.message = "schedule: T" + std::to_string(first) + " runs " + std::to_string(p) + " steps, then T" + std::to_string(other) +
                              " runs to completion, then T" + std::to_string(first) + " continues\n" + res.message;
                break;
            }
            if (args.extra == "enum2c") {
                // second preemption at the k-th conflicting access after the first switch (an access to a word the other thread wrote,
                // or a write to a word it read): preempting anywhere else is equivalent to preempting at the next such access, so every
                // k covers the second preemption points that matter without a bound on their distance
                for (std::uint64_t k = 1; k <= 60 && res.pass; ++k) {
                    S.script = {{p, other}, {k, first}};
                    S.script_conflict_from = 1;
                    S.script_first = first;
                    res = run_scenario(pf, sc, bytes, record, st);
                    S.script_conflict_from = ~std::size_t{0};
                    if (record) { ++st.evaluations; }
                    if (!res.pass) {
                        res.message = "schedule: T" + std::to_string(first) + " runs " + std::to_string(p) + " steps, T" + std::to_string(other) +
                                      " runs up to its " + std::to_string(k) + ". conflicting access, T" + std::to_string(first) + " continues to its end, then T" +
                                      std::to_string(other) + "\n" + res.message;
                        break;
                    }
                    if (S.script_fired() < 2) { break; } // fewer than k conflicting accesses: enumeration for this p is complete
                }
                continue;
            }
            if (!two) { continue; }
            // second preemption: the other thread is interrupted after q of its steps and the first one continues
            const std::uint64_t lim = solo[other] < 40 ? solo[other] : 40;
            for (std::uint64_t q = 1; q <= lim && res.pass; ++q) {
                S.script = {{p, other}, {p + q, first}};
                S.script_first = first;
                res = run_scenario(pf, sc, bytes, record, st);
                if (record) { ++st.evaluations; }
                if (!res.pass) {
                    res.message = "schedule: T" + std::to_string(first) + " runs " + std::to_string(p) + " steps, T" + std::to_string(other) + " runs " +
                                  std::to_string(q) + " steps, T" + std::to_string(first) + " continues to its end, then T" + std::to_string(other) + "\n" + res.message;
                }
            }
        }
    }
    S.use_script = false;
    S.script.clear();
    return res;
}

} // namespace dml
