// SCHED engine core: a deterministic cooperative scheduler for the real library code.
//
// Every hook point of the library (YAKUSHIMA_VERIF_YIELD) calls yakushima::verif::yield().  For a thread that is
// registered with the active scheduler this is a scheduling point: exactly one logical thread runs at a time and the
// decision "continue or switch to whom" is taken from a byte string (the generated schedule).  Threads that are not
// registered (the main thread, library helper threads) see a no-op.
//
//  * spin yields (lock held, dirty version) block the thread until some other thread performed a store / CAS
//  * all live threads blocked            -> deadlock (reported, process exits: the threads cannot be unwound)
//  * step budget exhausted               -> the scheduler "releases" all threads to run freely; case is inconclusive
//  * background threads created by init() are adopted through thread_begin(); their sleeps are virtual
#pragma once
#include <algorithm>
#include <atomic>
#include <condition_variable>
#include <cstdint>
#include <cstdio>
#include <cstdlib>
#include <functional>
#include <mutex>
#include <pthread.h>
#include <string>
#include <thread>
#include <unistd.h>
#include <unordered_map>
#include <vector>

#include "verif_hook.h"

namespace sched {

namespace yv = yakushima::verif;

// byte source for scheduling decisions: reads the case bytes from the END backwards, so that the scenario decoder
// (reading from the front) and the schedule are independent under byte-level shrinking.
class RevBytes {
public:
    RevBytes() = default;
    RevBytes(const std::uint8_t* p, std::size_t n) : p_(p), n_(n) {}
    std::uint8_t byte() { return pos_ < n_ ? p_[n_ - 1 - pos_++] : 0; }
    std::size_t consumed() const { return pos_; }

private:
    const std::uint8_t* p_{nullptr};
    std::size_t n_{0};
    std::size_t pos_{0};
};

enum class TState { Idle, Runnable, Blocked, Finished };

struct LThread {
    int id{-1};
    TState state{TState::Idle};
    std::condition_variable cv;
    std::uint64_t writes_seen{0};
    std::uint64_t last_writes{0}; // writes_performed when this thread last returned from a yield
    std::uint64_t last_ran{0};    // step at which this thread last held the baton (fairness)
    bool background{false};
    int bg_kind{0};
    char* stack_lo{nullptr};
    char* stack_hi{nullptr};
    std::uint64_t yields{0};
    int priority{0};
};

inline thread_local LThread* tl_self = nullptr;
inline std::atomic<std::uint64_t> g_unscheduled_spins{0};
inline std::atomic<std::uint64_t> g_unscheduled_steps{0}; // yield points passed by unscheduled threads since the last scheduled run
inline thread_local int tl_noyield = 0; // >0: yields are ignored (oracle code running inside a logical thread)

struct NoYield {
    NoYield() { ++tl_noyield; }
    ~NoYield() { --tl_noyield; }
    NoYield(const NoYield&) = delete;
    NoYield& operator=(const NoYield&) = delete;
};

enum class Outcome { Ok, Released /* step budget: inconclusive */ };

constexpr int CAT_OP = 7 << 4; // harness op boundary (not a library category)

class Scheduler {
public:
    static Scheduler& get() {
        static Scheduler s;
        return s;
    }

    // ---- configuration for one case ------------------------------------------------------------
    std::uint64_t step_limit{3000000};
    unsigned preempt_cats{0xffffffffU}; // bit (cat>>4): categories at which preemption is considered
    std::function<void(const char* what)> on_fatal; // deadlock: must not return
    bool hold_background{false}; // keep adopted background threads parked after run() until release_background()
    // explicit schedule (bounded-exhaustive enumeration): (global step, thread id to switch to); used instead of the byte policy
    std::vector<std::pair<std::uint64_t, int>> script;
    bool use_script{false};
    int script_first{0};
    // script variant: the entry {k, thread} with script_conflict_from <= its index fires at the k-th conflicting access counted from the
    // previous scripted switch (a conflicting access = the running thread is about to touch a word another thread wrote, or to write
    // a word another thread read, earlier in this run) instead of at a global step
    std::size_t script_conflict_from{~std::size_t{0}};
    std::uint64_t conflicts_since_switch{0}; // out: conflicting accesses seen after the last scripted switch (enumeration bound)
    // conflict-directed overlay on the byte policies: at a conflicting access preempt with probability 1/4 in favour of a thread that
    // touched the word (races on one word need two preemptions a few steps apart, which uniform policies rarely produce)
    bool conflict_bias{false};
    std::uint64_t conflict_points{0}; // statistics of the last run
    // C09: a case that does not finish within the step budget under the fair continuation is a violation, not an inconclusive run
    bool fatal_on_step_limit{false};
    std::uint64_t fairness_quantum{4000}; // a thread that ran this many consecutive steps hands over (round robin) if someone else can run

    // ---- statistics of the last run ---------------------------------------------------------------
    std::uint64_t steps{0};
    std::uint64_t switches{0};
    std::uint64_t preemptions{0}; // switches that were not forced by blocking / finishing
    std::uint64_t spin_blocks{0};
    std::uint64_t clock{0}; // logical time for histories
    Outcome outcome{Outcome::Ok};
    std::vector<std::uint8_t> trace; // thread id per step (bounded)

    std::uint64_t now() { return ++clock; }

    // Run the given bodies as logical threads 0..n-1 under the schedule; returns when all finished.  Background threads
    // adopted earlier (adopt_background) take part as well.
    Outcome run(std::vector<std::function<void()>> bodies, RevBytes sched_bytes) {
        std::unique_lock<std::mutex> lk(mu_);
        bytes_ = sched_bytes;
        steps = switches = preemptions = spin_blocks = 0;
        writes_performed_ = 0;
        acc_.clear();
        conflict_points = 0;
        conflicts_since_switch = 0;
        outcome = Outcome::Ok;
        released_.store(false);
        g_unscheduled_spins.store(0);
        g_unscheduled_steps.store(0);
        trace.clear();
        n_workers_ = bodies.size();
        ensure_workers(n_workers_);
        for (std::size_t i = 0; i < n_workers_; ++i) {
            workers_[i]->lt.state = TState::Runnable;
            workers_[i]->lt.yields = 0;
            workers_[i]->lt.last_writes = 0;
            workers_[i]->lt.last_ran = 0;
            workers_[i]->lt.writes_seen = 0;
            workers_[i]->body = std::move(bodies[i]);
            workers_[i]->has_job = true;
        }
        // policy
        mode_ = bytes_.byte() % 3;
        script_pos_ = 0;
        grant_rr_ = 0; // no scheduler state may survive from one case to the next
        leash_holder_ = leashed_ = nullptr;
        leash_steps_ = 0;
        run_len_ = 0;
        fair_rr_ = 0;
        if (use_script) { mode_ = 3; }
        if (!background_.empty() && mode_ == 2) { mode_ = 0; } // priority scheduling starves the workers behind never-ending background threads
        std::uint8_t t = bytes_.byte();
        thresh_ = (t % 3 == 0) ? 64 : (t % 3 == 1 ? 24 : 128);
        next_preempt_ = read_delta();
        for (auto* l : all_threads()) { l->priority = 1 + bytes_.byte() % 32; }
        for (auto& cp : change_points_) { cp = read_delta() * 2; }
        active_ = true;
        remaining_ = n_workers_;
        // hand the baton to the first thread
        std::vector<LThread*> c = candidates(nullptr);
        current_ = pick(c, nullptr);
        for (std::size_t i = 0; i < n_workers_; ++i) { workers_[i]->job_cv.notify_one(); }
        if (current_ != nullptr) { current_->cv.notify_one(); }
        done_cv_.wait(lk, [&] { return remaining_ == 0; });
        // scheduled region over: background threads keep running freely (virtual sleeps become short real sleeps)
        active_ = false;
        current_ = nullptr;
        if (!hold_background) {
            released_.store(true);
            for (auto* b : background_) { b->cv.notify_all(); }
        }
        return outcome;
    }

    // create the worker pool up front (so that pool growth is not attributed to a case by the allocation oracle)
    void prewarm(std::size_t n) {
        std::unique_lock<std::mutex> lk(mu_);
        ensure_workers(n);
        trace.reserve(200001);
    }

    // called by the hooks -----------------------------------------------------------------------------
    void yield(int kind, const void* addr) noexcept {
        LThread* self = tl_self;
        if (self == nullptr || tl_noyield != 0) { return; }
        if (released_.load(std::memory_order_relaxed)) { return; }
        const char* a = static_cast<const char*>(addr);
        if (a >= self->stack_lo && a < self->stack_hi) { return; } // access to a local copy, not shared memory
        const int access = kind & yv::Y_ACCESS_MASK;
        const unsigned cat = static_cast<unsigned>(kind & 0x70) >> 4U;
        std::unique_lock<std::mutex> lk(mu_);
        if (!active_ || released_.load()) { return; }
        ++steps;
        ++self->yields;
        self->last_ran = steps;
        ring_[ring_n_++ % 64] = RingEnt{self->id, kind, addr};
        if (trace.size() < 200000) { trace.push_back(static_cast<std::uint8_t>(self->id)); }
        if (steps > step_limit) {
            if (fatal_on_step_limit) {
                if (on_fatal) { on_fatal("step budget exhausted under a fair schedule"); }
                std::fprintf(stderr, "last scheduling steps (thread:kind@addr):");
                for (std::size_t i = 0; i < 48 && i < ring_n_; ++i) {
                    const RingEnt& e = ring_[(ring_n_ - 1 - i) % 64];
                    std::fprintf(stderr, " T%d:%x@%p", e.thread, static_cast<unsigned>(e.kind), e.addr);
                }
                std::fprintf(stderr, "\n");
                for (auto* l : all_threads()) { std::fprintf(stderr, "thread %d state=%d yields=%llu\n", l->id, static_cast<int>(l->state), static_cast<unsigned long long>(l->yields)); }
                std::fprintf(stdout, "FAIL signature=no_termination msg=the case did not finish within %llu scheduling steps although every runnable thread was scheduled at least every %llu steps (operations normally need a few hundred)\n",
                             static_cast<unsigned long long>(step_limit), static_cast<unsigned long long>(fairness_quantum));
                std::fflush(stdout);
                _exit(4);
            }
            release_all();
            return;
        }
        bool must_switch = false;
        ++run_len_;
        bool conflict = false;
        LThread* conflict_with = nullptr;
        if (addr != nullptr && access != yv::Y_SLEEP && (conflict_bias || use_script)) {
            Acc& e = acc_[addr];
            const std::uint8_t me = static_cast<std::uint8_t>(1U << static_cast<unsigned>(self->background ? 4 + (self->bg_kind & 3) : (self->id & 3)));
            const bool is_write = access == yv::Y_STORE || access == yv::Y_CAS;
            const std::uint8_t hit = static_cast<std::uint8_t>((e.w & ~me) | (is_write ? (e.r & ~me) : 0));
            conflict = hit != 0;
            if (conflict) {
                ++conflict_points;
                ++conflicts_since_switch;
                for (auto* l : all_threads()) {
                    const std::uint8_t bit = static_cast<std::uint8_t>(1U << static_cast<unsigned>(l->background ? 4 + (l->bg_kind & 3) : (l->id & 3)));
                    if ((hit & bit) != 0 && l != self) { conflict_with = l; }
                }
            }
            if (is_write) { e.w |= me; } else { e.r |= me; }
        }
        if (access == yv::Y_SPIN) {
            self->state = (writes_performed_ > self->last_writes) ? TState::Runnable : TState::Blocked;
            // the load that saw the lock / dirty bit happened after the previous yield returned: any store since then counts
            self->writes_seen = self->last_writes;
            ++spin_blocks;
            must_switch = self->state == TState::Blocked;
        }
        std::vector<LThread*> c = candidates(self);
        LThread* next = self;
        if (leashed_ == self && leash_holder_ != nullptr) {
            // a worker stepped this background thread: after the granted number of yield points (or when it goes to sleep / blocks)
            // the baton goes straight back, so the worker acts in the middle of the background thread's iteration
            const bool back = access == yv::Y_SLEEP || must_switch || leash_steps_ == 0 || --leash_steps_ == 0;
            if (back) {
                LThread* h = leash_holder_;
                leash_holder_ = leashed_ = nullptr;
                bool can = false;
                for (auto* l : c) {
                    if (l == h) { can = true; }
                }
                if (can) {
                    ++switches;
                    run_len_ = 0;
                    current_ = h;
                    h->cv.notify_one();
                    self->cv.wait(lk, [&] { return current_ == self || released_.load(); });
                    if (self->state == TState::Blocked) { self->state = TState::Runnable; }
                    if (access == yv::Y_STORE || access == yv::Y_CAS) { ++writes_performed_; }
                    self->last_writes = writes_performed_;
                    return;
                }
            } else {
                // keep running under the leash: no policy decision at this yield point
                if (access == yv::Y_STORE || access == yv::Y_CAS) { ++writes_performed_; }
                self->last_writes = writes_performed_;
                return;
            }
        }
        if (must_switch) {
            if (c.empty()) {
                // nobody else can run.  If nothing can ever change the state this thread waits for: deadlock.
                deadlock_check();
                // some background thread may still be sleeping => treat self as runnable again later
                self->state = TState::Runnable;
                next = self;
            } else {
                next = pick(c, self);
            }
        } else if (!c.empty() && (run_len_ >= fairness_quantum || starved(c) != nullptr)) {
            // fairness: whatever the generated schedule says, nobody runs forever while others could - neither one thread alone
            // (run length) nor a group that keeps handing the baton to each other while a third thread waits (starvation)
            next = c[0];
            for (auto* l : c) {
                if (l->last_ran < next->last_ran) { next = l; } // the one that has waited longest
            }
        } else if (access == yv::Y_SLEEP && !c.empty()) {
            // a sleeping (background) thread gives up the processor; it stays runnable: virtual time
            next = pick(c, self);
        } else if (((preempt_cats >> cat) & 1U) != 0 && !c.empty() && want_preempt(self, c, conflict)) {
            next = pick(c, self);
            ++preemptions;
        } else if (conflict && conflict_bias && mode_ != 3 && ((preempt_cats >> cat) & 1U) != 0 && !c.empty() && bytes_.byte() < 64) {
            next = nullptr;
            for (auto* l : c) {
                if (l == conflict_with) { next = l; }
            }
            if (next == nullptr) { next = pick(c, self); }
            ++preemptions;
        }
        if (next != self) {
            ++switches;
            run_len_ = 0;
            current_ = next;
            next->cv.notify_one();
            self->cv.wait(lk, [&] { return current_ == self || released_.load(); });
        }
        if (self->state == TState::Blocked) { self->state = TState::Runnable; }
        if (access == yv::Y_STORE || access == yv::Y_CAS) { ++writes_performed_; }
        self->last_writes = writes_performed_;
    }

    // a logical thread's body finished
    void finish_self(LThread* self) {
        std::unique_lock<std::mutex> lk(mu_);
        self->state = TState::Finished;
        if (!self->background) { --remaining_; }
        ++writes_performed_; // finishing may unblock (nothing waits on it, but keeps the accounting simple)
        if (remaining_ == 0 && !self->background) {
            done_cv_.notify_all();
            return;
        }
        if (!active_ || released_.load()) { return; }
        std::vector<LThread*> c = candidates(self);
        if (c.empty()) {
            deadlock_check();
            return;
        }
        current_ = pick(c, self);
        ++switches;
        current_->cv.notify_one();
    }

    // background threads of init(): adopted when they call thread_begin()
    void expect_background(int n) {
        std::unique_lock<std::mutex> lk(mu_);
        adopt_ = true;
        adopt_expected_ = n;
    }
    void wait_background_registered() {
        std::unique_lock<std::mutex> lk(mu_);
        done_cv_.wait(lk, [&] { return static_cast<int>(background_.size()) >= adopt_expected_; });
        // the OS decides which background thread registers first; the schedule must not depend on it
        std::sort(background_.begin(), background_.end(), [](const LThread* a, const LThread* b) { return a->bg_kind < b->bg_kind; });
    }
    void thread_begin(int kind) noexcept {
        std::unique_lock<std::mutex> lk(mu_);
        if (!adopt_) { return; }
        auto* l = new LThread();
        l->id = 100 + kind;
        l->background = true;
        l->bg_kind = kind;
        l->state = TState::Runnable;
        set_stack_bounds(l);
        tl_self = l;
        background_.push_back(l);
        done_cv_.notify_all();
        // park until scheduled (or released)
        l->cv.wait(lk, [&] { return current_ == l || released_.load(); });
    }
    void thread_end(int /*kind*/) noexcept {
        LThread* self = tl_self;
        if (self == nullptr || !self->background) { return; }
        finish_self(self);
        tl_self = nullptr;
    }
    bool sleep_hook(std::size_t /*ms*/) noexcept {
        LThread* self = tl_self;
        if (self == nullptr) { return false; }
        if (released_.load() || !active_) {
            std::this_thread::sleep_for(std::chrono::microseconds(50));
            return true;
        }
        ++bg_iterations_[self->bg_kind & 3];
        yield(yv::Y_SLEEP | yv::Y_CAT_EPOCH, nullptr);
        return true;
    }
    void release_background() {
        std::unique_lock<std::mutex> lk(mu_);
        released_.store(true);
        for (auto* b : background_) { b->cv.notify_all(); }
    }
    void forget_background() {
        std::unique_lock<std::mutex> lk(mu_);
        for (auto* b : background_) { delete b; }
        background_.clear();
        adopt_ = false;
        released_.store(false);
        bg_iterations_[0] = bg_iterations_[1] = bg_iterations_[2] = bg_iterations_[3] = 0;
    }
    std::uint64_t bg_iterations(int kind) const { return bg_iterations_[kind & 3]; }
    // has the adopted background thread of this kind left its loop (thread_end) ?
    bool background_finished(int kind) {
        std::unique_lock<std::mutex> lk(mu_);
        for (auto* b : background_) {
            if (b->bg_kind == kind && b->state == TState::Finished) { return true; }
        }
        return false;
    }
    std::size_t background_count() {
        std::unique_lock<std::mutex> lk(mu_);
        return background_.size();
    }
    // called by a logical thread: hand the baton to a background thread (alternating), i.e. let virtual time pass
    void grant_background() noexcept {
        LThread* self = tl_self;
        if (self == nullptr || tl_noyield != 0 || released_.load()) { return; }
        std::unique_lock<std::mutex> lk(mu_);
        if (!active_) { return; }
        ++steps;
        if (steps > step_limit) {
            release_all();
            return;
        }
        LThread* next = nullptr;
        for (std::size_t i = 0; i < background_.size(); ++i) {
            LThread* b = background_[(grant_rr_ + i) % background_.size()];
            if (b->state == TState::Runnable || (b->state == TState::Blocked && writes_performed_ > b->writes_seen)) {
                next = b;
                grant_rr_ = (grant_rr_ + i + 1) % background_.size();
                break;
            }
        }
        if (next == nullptr) { return; }
        ++switches;
        current_ = next;
        next->cv.notify_one();
        self->cv.wait(lk, [&] { return current_ == self || released_.load(); });
        self->last_writes = writes_performed_;
    }
    // called by a logical thread: let the background thread of this kind pass `steps` yield points, then take the baton back
    // (earlier if it goes to sleep or blocks).  Interleaves a worker with the MIDDLE of an epoch / gc iteration on purpose.
    void grant_background_steps(int kind, std::uint64_t steps) noexcept {
        LThread* self = tl_self;
        if (self == nullptr || tl_noyield != 0 || released_.load() || steps == 0) { return; }
        std::unique_lock<std::mutex> lk(mu_);
        if (!active_) { return; }
        ++steps_dummy_;
        LThread* next = nullptr;
        for (auto* b : background_) {
            if (b->bg_kind == kind && (b->state == TState::Runnable || (b->state == TState::Blocked && writes_performed_ > b->writes_seen))) { next = b; }
        }
        if (next == nullptr) { return; }
        leash_holder_ = self;
        leashed_ = next;
        leash_steps_ = steps;
        ++switches;
        current_ = next;
        next->cv.notify_one();
        self->cv.wait(lk, [&] { return current_ == self || released_.load(); });
        self->last_writes = writes_performed_;
    }
    bool is_released() const { return released_.load(); }
    std::size_t script_fired() const { return script_pos_; } // scripted switches consumed in the last run
    std::size_t yields_of(std::size_t worker) const { return workers_[worker]->lt.yields; }

private:
    struct Worker {
        LThread lt;
        std::thread th;
        std::condition_variable job_cv;
        std::function<void()> body;
        bool has_job{false};
    };

    std::mutex mu_;
    std::condition_variable done_cv_;
    std::vector<Worker*> workers_;
    std::vector<LThread*> background_;
    std::size_t n_workers_{0};
    std::size_t remaining_{0};
    LThread* current_{nullptr};
    bool active_{false};
    std::atomic<bool> released_{false};
    bool adopt_{false};
    int adopt_expected_{0};
    std::uint64_t writes_performed_{0};
    RevBytes bytes_;
    unsigned mode_{0};
    unsigned thresh_{64};
    std::uint64_t next_preempt_{0};
    std::uint64_t change_points_[3]{0, 0, 0};
    std::uint64_t bg_iterations_[4]{0, 0, 0, 0};
    std::uint64_t steps_dummy_{0};
    LThread* leash_holder_{nullptr}; // the worker that granted a background thread a bounded number of steps
    LThread* leashed_{nullptr};      // that background thread
    std::uint64_t leash_steps_{0};   // yield points it may still pass before the baton goes back
    std::size_t grant_rr_{0};
    std::size_t script_pos_{0};
    std::uint64_t run_len_{0};
    std::size_t fair_rr_{0};
    struct RingEnt {
        int thread;
        int kind;
        const void* addr;
    };
    struct Acc {
        std::uint8_t r{0}, w{0}; // thread bit sets: who read / wrote this word in the current run
    };
    std::unordered_map<const void*, Acc> acc_;
    RingEnt ring_[64]{};
    std::size_t ring_n_{0};

    static void set_stack_bounds(LThread* l) {
        pthread_attr_t attr;
        if (pthread_getattr_np(pthread_self(), &attr) == 0) {
            void* addr = nullptr;
            std::size_t size = 0;
            pthread_attr_getstack(&attr, &addr, &size);
            l->stack_lo = static_cast<char*>(addr);
            l->stack_hi = static_cast<char*>(addr) + size;
            pthread_attr_destroy(&attr);
        }
    }

    void ensure_workers(std::size_t n) {
        while (workers_.size() < n) {
            auto* w = new Worker();
            w->lt.id = static_cast<int>(workers_.size());
            workers_.push_back(w);
            w->th = std::thread([this, w] {
                set_stack_bounds(&w->lt);
                tl_self = &w->lt;
                for (;;) {
                    {
                        std::unique_lock<std::mutex> lk(mu_);
                        w->job_cv.wait(lk, [&] { return w->has_job; });
                        w->has_job = false;
                        // wait for the baton
                        w->lt.cv.wait(lk, [&] { return current_ == &w->lt || released_.load(); });
                    }
                    w->body();
                    w->body = nullptr;
                    finish_self(&w->lt);
                }
            });
            w->th.detach();
        }
    }

    std::vector<LThread*> all_threads() {
        std::vector<LThread*> v;
        for (std::size_t i = 0; i < n_workers_; ++i) { v.push_back(&workers_[i]->lt); }
        for (auto* b : background_) { v.push_back(b); }
        return v;
    }
    // threads other than `self` that can run now
    std::vector<LThread*> candidates(LThread* self) {
        std::vector<LThread*> c;
        for (auto* l : all_threads()) {
            if (l == self) { continue; }
            if (l->state == TState::Runnable || (l->state == TState::Blocked && writes_performed_ > l->writes_seen)) { c.push_back(l); }
        }
        return c;
    }
    // a candidate that has not held the baton for more than the fairness quantum (worker threads only: background threads
    // are driven by sleeps and grants)
    LThread* starved(const std::vector<LThread*>& c) const {
        for (auto* l : c) {
            if (!l->background && steps > l->last_ran + fairness_quantum) { return l; }
        }
        return nullptr;
    }
    std::uint64_t read_delta() {
        std::uint64_t d = bytes_.byte();
        d |= static_cast<std::uint64_t>(bytes_.byte()) << 8U;
        return d % 400;
    }
    bool want_preempt(LThread* self, const std::vector<LThread*>& c, bool conflict) {
        switch (mode_) {
            case 0: { // dense: switch with probability thresh/256 at every eligible yield
                std::uint8_t b = bytes_.byte();
                return b >= 256 - thresh_;
            }
            case 1: { // sparse: a short list of preemption points
                if (next_preempt_ == 0) { return false; }
                if (--next_preempt_ == 0) {
                    next_preempt_ = read_delta();
                    return true;
                }
                return false;
            }
            case 3: // explicit script
                if (script_pos_ >= script.size()) { return false; }
                if (script_pos_ >= script_conflict_from) { return conflict && conflicts_since_switch >= script[script_pos_].first; }
                return steps >= script[script_pos_].first;
            default: { // PCT: run the highest priority; at change points the running thread drops to the lowest
                for (auto& cp : change_points_) {
                    if (cp != 0 && steps == cp) {
                        self->priority = 0;
                        cp = 0;
                    }
                }
                for (auto* l : c) {
                    if (l->priority > self->priority) { return true; }
                }
                return false;
            }
        }
    }
    LThread* pick(const std::vector<LThread*>& c, LThread* /*self*/) {
        if (c.empty()) { return nullptr; }
        if (mode_ == 3) {
            // scripted switch if one is due, otherwise the lowest thread id (forced switches: block / finish)
            const bool due = script_pos_ < script.size() &&
                             (script_pos_ >= script_conflict_from ? conflicts_since_switch >= script[script_pos_].first : steps >= script[script_pos_].first);
            if (due) {
                int want = script[script_pos_++].second;
                conflicts_since_switch = 0;
                for (auto* l : c) {
                    if (l->id == want) { return l; }
                }
            }
            if (steps == 0) {
                for (auto* l : c) {
                    if (l->id == script_first) { return l; }
                }
            }
            return c[0];
        }
        if (mode_ == 2) {
            LThread* best = c[0];
            for (auto* l : c) {
                if (l->priority > best->priority) { best = l; }
            }
            return best;
        }
        return c[bytes_.byte() % c.size()];
    }
    void release_all() {
        outcome = Outcome::Released;
        released_.store(true);
        for (auto* l : all_threads()) { l->cv.notify_all(); }
    }
    void deadlock_check() {
        // called with mu_ held when no other thread is runnable
        for (auto* l : all_threads()) {
            if (l->state == TState::Runnable && l != tl_self) { return; }
            if (l->state == TState::Blocked && writes_performed_ > l->writes_seen) { return; }
        }
        LThread* self = tl_self;
        if (self != nullptr && self->state == TState::Runnable) { return; }
        bool any_blocked = false;
        for (auto* l : all_threads()) {
            if (l->state == TState::Blocked) { any_blocked = true; }
        }
        if (!any_blocked) { return; }
        if (on_fatal) { on_fatal("deadlock: every live thread waits on a lock / dirty version and none can make a store"); }
        std::fprintf(stdout, "FAIL signature=deadlock msg=all live threads blocked\n");
        std::fflush(stdout);
        _exit(4);
    }
};

// harness-level op boundary: a preemption candidate of category CAT_OP
inline void op_boundary() { Scheduler::get().yield(yv::Y_LOAD | CAT_OP, nullptr); }

} // namespace sched

#ifdef VF_DEFINE_SCHED_HOOKS
namespace vf {
using EventSink = void (*)(int ev, const void* obj, std::uint64_t a, std::uint64_t b);
inline EventSink g_event_sink = nullptr;
} // namespace vf
namespace yakushima::verif {
void yield(int kind, const void* addr) noexcept {
    if (sched::tl_self == nullptr) {
        // unscheduled thread (setup / quiescent checks on the main thread): a spin that never ends means a lock or dirty bit was
        // left behind by the scheduled threads
        if ((kind & Y_ACCESS_MASK) == Y_SPIN && ++sched::g_unscheduled_spins > 300000) {
            std::fprintf(stdout, "FAIL signature=lock_left msg=an unscheduled thread spins forever on a lock / dirty version left behind\n");
            std::fflush(stdout);
            _exit(4);
        }
        // setup / quiescent phases are a few thousand to a few hundred thousand yield points long; tens of millions mean a loop that
        // waits for something nobody will ever do (e.g. for a session slot that is never released)
        if (++sched::g_unscheduled_steps > 40000000) {
            std::fprintf(stdout, "FAIL signature=no_termination_unscheduled msg=a call made outside the scheduled region passed 40 million yield points without returning (endless retry loop)\n");
            std::fflush(stdout);
            _exit(4);
        }
        return;
    }
    sched::Scheduler::get().yield(kind, addr);
}
void event(int ev, const void* obj, std::uint64_t a, std::uint64_t b) noexcept {
    if (vf::g_event_sink != nullptr) { vf::g_event_sink(ev, obj, a, b); }
}
bool sleep_hook(std::size_t ms) noexcept { return sched::Scheduler::get().sleep_hook(ms); }
void thread_begin(int kind) noexcept { sched::Scheduler::get().thread_begin(kind); }
void thread_end(int kind) noexcept { sched::Scheduler::get().thread_end(kind); }
} // namespace yakushima::verif
#endif
