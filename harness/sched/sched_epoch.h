// SCHED scenarios with the real background threads of init(): the epoch thread and the gc thread are adopted as logical
// threads and their sleeps are virtual, so "for every epoch period" is part of the generated schedule.
//   C16: init/fin (and destroy) cycles behave like the first one
//   C07: memory handed out inside a session stays valid until that session leaves (quarantine allocator + event invariant)
#pragma once
#include <map>
#include <set>
#include <sstream>
#include <string>
#include <vector>

#include "kvs.h"

#include "../common/alloc_track.h"
#include "../common/chooser.h"
#include "../common/keys.h"
#include "../common/runner.h"
#include "../common/stats.h"
#include "sched.h"

namespace epo {

using namespace yakushima; // NOLINT
using vf::Chooser;
namespace yv = yakushima::verif;

struct Fail {
    std::string signature;
    std::string message;
};

struct Ev {
    std::uint64_t t;
    int ev;
    const void* obj;
    std::uint64_t a, b;
    int thread;
    std::uint64_t call_inv; // invocation time of the API call in progress on that thread (0 = none)
};
inline std::vector<Ev>* g_events = nullptr;
inline thread_local std::uint64_t tl_call_inv = 0;
inline void event_sink(int ev, const void* obj, std::uint64_t a, std::uint64_t b) {
    if (g_events == nullptr) { return; }
    if (ev == yv::EV_PERM_STORE || ev >= yv::EV_LOCK_ACQ) { return; }
    int th = sched::tl_self != nullptr ? sched::tl_self->id : -1;
    // events are emitted by the running logical thread (or, outside a scheduled region, by one thread at a time)
    g_events->push_back(Ev{sched::Scheduler::get().now(), ev, obj, a, b, th, tl_call_inv});
}

inline std::string vbytes(std::uint32_t id) { return vf::value_bytes(id, 8 + id % 24); }

// start a cycle: init() with both background threads adopted by the scheduler
inline void start_cycle() {
    auto& S = sched::Scheduler::get();
    S.forget_background();
    S.hold_background = true;
    S.expect_background(2);
    init();
    S.wait_background_registered();
}
inline void end_cycle() {
    auto& S = sched::Scheduler::get();
    S.release_background();
    fin();
    S.forget_background();
}

// The first init()/fin() cycle of a process can only happen once, so it is spent before the first case; it is driven under the
// scheduler for a fixed number of background iterations so that every process (generator shard or single-case replay) starts its
// cases from the same library state: the epoch has advanced several times and a gc epoch is left behind.
inline void warmup_cycle() {
    auto& S = sched::Scheduler::get();
    start_cycle();
    std::vector<std::function<void()>> bodies;
    bodies.emplace_back([&S] {
        for (int i = 0; i < 400; ++i) {
            if (S.bg_iterations(yv::TH_EPOCH) >= 6 && S.bg_iterations(yv::TH_GC) >= 6) { break; }
            S.grant_background();
        }
    });
    S.step_limit = 3000000;
    S.preempt_cats = 0; // no preemption besides the grants: deterministic regardless of schedule bytes
    S.run(std::move(bodies), sched::RevBytes());
    S.preempt_cats = 0xffffffffU;
    end_cycle();
}

// =====================================================================================================
// C16
// =====================================================================================================
inline vf::CaseResult run_c16(const vf::RunnerArgs& /*args*/, const std::vector<std::uint8_t>& bytes, bool record, vf::Stats& st) {
    vf::CaseResult res;
    Chooser c(bytes);
    auto& S = sched::Scheduler::get();
    unsigned cycles = 1 + c.range(0, 3);
    std::ostringstream tx;
    std::vector<Ev> events;
    std::uint32_t next_id = 1;
    bool later_cycle_retired = false;
    try {
        for (unsigned cy = 0; cy < cycles; ++cy) {
            tx << "cycle " << cy << ":";
            std::string ctext;
            auto failx = [&](const std::string& sig, const std::string& m) { throw Fail{sig, "cycle " + std::to_string(cy) + ": " + m + "\n" + tx.str()}; };
            events.clear();
            g_events = &events;
            vf::g_event_sink = event_sink;
            start_cycle();
            const Epoch e_start = epoch_management::get_epoch();
            // ---- a fresh system
            {
                std::vector<std::pair<std::string, tree_instance*>> lst;
                ++st.checks;
                if (list_storages(lst) != status::WARN_NOT_EXIST) { failx("cycle_not_empty", "list_storages reports storages right after init()"); }
                // all slots free: in one cycle out of three through the API (capacity enters must succeed), otherwise by looking at
                // the slots (entering and leaving every slot would also repair state that a broken init() left behind)
                if (c.chance(1, 3)) {
                    std::vector<Token> toks;
                    for (std::size_t i = 0; i < YAKUSHIMA_MAX_PARALLEL_SESSIONS; ++i) {
                        Token t{};
                        ++st.checks;
                        if (enter(t) != status::OK) { failx("cycle_slots_not_free", "enter #" + std::to_string(i) + " failed right after init()"); }
                        toks.push_back(t);
                    }
                    for (auto t : toks) { leave(t); }
                    tx << " (all slots entered and left)";
                } else {
                    for (auto& ti : thread_info_table::get_thread_info_table()) {
                        ++st.checks;
                        if (ti.get_running()) { failx("cycle_slots_not_free", "a session slot is still marked running right after init()"); }
                    }
                }
            }
            // ---- body: generated ops (unscheduled part: structure; scheduled part: retire + virtual time)
            unsigned nstor = 1 + c.range(0, 2);
            unsigned nkeys = 1 + c.range(0, 40);
            bool leave_open = c.chance(1, 3);
            unsigned open_slot = c.range(0, 3);
            bool do_destroy = c.chance(1, 4);
            unsigned nremove = c.range(0, nkeys);
            tx << " storages=" << nstor << " keys=" << nkeys << " removes=" << nremove << (leave_open ? " session_left_open(slot " + std::to_string(open_slot) + ")" : "") << (do_destroy ? " destroy_mid_cycle" : "");
            std::vector<std::string> names;
            for (unsigned i = 0; i < nstor; ++i) {
                std::string n = "st" + std::to_string(i);
                ++st.checks;
                if (create_storage(n) != status::OK) { failx("cycle_not_empty", "create_storage(\"" + n + "\") failed: the name survived the previous cycle"); }
                names.push_back(n);
            }
            for (auto& n : names) {
                std::vector<std::tuple<std::string, char*, std::size_t>> tl;
                ++st.checks;
                if (scan<char>(n, "", scan_endpoint::INF, "", scan_endpoint::INF, tl) != status::OK || !tl.empty()) {
                    failx("cycle_not_empty", "a key of an earlier cycle is visible in the new storage");
                }
            }
            Token open_tok{};
            std::uint64_t retired = 0;
            // one phase of work: puts / removes in a scheduled thread, then virtual time; judged: background threads alive, epoch
            // advancing and retired memory reclaimed while running.  Run once per cycle, and once more after destroy().
            auto run_phase = [&](const std::vector<std::string>& names, bool leave_open, const std::string& label) {
                std::uint64_t reclaim_seen = 0;
                retired = 0;
                std::string werr;
                std::string gc_err;
                Epoch e_mid = 0;
                Epoch e_end = 0;
                bool epoch_exited = false;
                bool gc_exited = false;
                std::uint64_t epoch_iters = 0;
                std::uint64_t gc_iters = 0;
                std::vector<std::function<void()>> bodies;
                bodies.emplace_back([&] {
                    Token tok{};
                    if (enter(tok) != status::OK) {
                        werr = "enter failed";
                        return;
                    }
                    {
                        // like in the first cycle, the gc epoch is below the begin epoch of a session that has just entered (a gc epoch
                        // left ahead by the previous cycle releases what this session reads)
                        sched::NoYield g;
                        const Epoch mine = static_cast<thread_info*>(tok)->get_begin_epoch();
                        const Epoch gce = garbage_collection::get_gc_epoch();
                        if (gce >= mine) { gc_err = "the gc epoch is " + std::to_string(gce) + " when a session enters at epoch " + std::to_string(mine); }
                    }
                    for (unsigned i = 0; i < nkeys; ++i) {
                        std::string k = "k" + std::to_string(i);
                        std::string v = vbytes(next_id++);
                        if (put<char>(tok, names[i % names.size()], k, v.data(), v.size()) != status::OK) { werr = "put failed"; }
                    }
                    for (unsigned i = 0; i < nremove; ++i) {
                        std::string k = "k" + std::to_string(i);
                        if (remove(tok, names[i % names.size()], k) != status::OK) { werr = "remove failed"; }
                    }
                    leave(tok);
                    if (leave_open) {
                        // the session that stays open may sit in any slot: open a few, close all but one
                        std::vector<Token> tmp(1 + open_slot);
                        for (auto& t0 : tmp) { enter(t0); }
                        open_tok = tmp.back();
                        for (std::size_t i = 0; i + 1 < tmp.size(); ++i) { leave(tmp[i]); }
                    }
                    // let virtual time pass: grant the background threads full iterations
                    const std::uint64_t e0 = S.bg_iterations(yv::TH_EPOCH);
                    const std::uint64_t g0 = S.bg_iterations(yv::TH_GC);
                    e_mid = epoch_management::get_epoch();
                    for (int i = 0; i < 4000; ++i) {
                        if (S.bg_iterations(yv::TH_EPOCH) >= e0 + 8 && S.bg_iterations(yv::TH_GC) >= g0 + 8) { break; }
                        if (S.background_finished(yv::TH_EPOCH) || S.background_finished(yv::TH_GC)) { break; }
                        S.grant_background();
                    }
                    epoch_iters = S.bg_iterations(yv::TH_EPOCH) - e0;
                    gc_iters = S.bg_iterations(yv::TH_GC) - g0;
                    e_end = epoch_management::get_epoch();
                    epoch_exited = S.background_finished(yv::TH_EPOCH);
                    gc_exited = S.background_finished(yv::TH_GC);
                });
                S.step_limit = 3000000;
                S.clock = 0;
                // C16 is not about tree races: preempt only at session / epoch / gc accesses and sleeps
                S.preempt_cats = (1U << 1U) | (1U << 2U) | (1U << 3U) | (1U << 7U);
                sched::RevBytes rb(bytes.data(), bytes.size());
                sched::Outcome oc = S.run(std::move(bodies), rb);
                S.preempt_cats = 0xffffffffU;
                if (oc == sched::Outcome::Released) { return false; }
                for (auto& ev : events) {
                    if (ev.ev == yv::EV_RETIRE_VALUE || ev.ev == yv::EV_RETIRE_NODE) { ++retired; }
                    if (ev.ev == yv::EV_RECLAIM_VALUE || ev.ev == yv::EV_RECLAIM_NODE) { ++reclaim_seen; }
                }
                tx << " " << label << "[epoch " << e_start << "->" << e_mid << "->" << e_end << " epoch_iters=" << epoch_iters << " gc_iters=" << gc_iters << " retired=" << retired
                   << " reclaimed_while_running=" << reclaim_seen << "]\n";
                events.clear();
                if (!werr.empty()) { failx("cycle_op_failed", werr); }
                if (!gc_err.empty()) { failx("gc_epoch_not_below_entering_session", gc_err); }
                ++st.checks;
                if (epoch_exited) { failx("epoch_thread_exited", "the epoch thread left its loop while the system is running (before fin())"); }
                if (gc_exited) { failx("gc_thread_exited", "the gc thread left its loop while the system is running (before fin())"); }
                if (epoch_iters >= 8 && !leave_open) {
                    ++st.checks;
                    if (e_end < e_mid + 2) { failx("epoch_not_advancing", "the epoch advanced by " + std::to_string(e_end - e_mid) + " during " + std::to_string(epoch_iters) + " iterations of the epoch thread with no session open"); }
                }
                if (epoch_iters >= 8 && gc_iters >= 8 && retired > 0 && !leave_open) {
                    ++st.checks;
                    if (reclaim_seen == 0) { failx("no_reclaim_while_running", std::to_string(retired) + " objects were retired, their session left and both background threads ran >= 8 iterations, but nothing was reclaimed before fin()"); }
                }
                return true;
            };
            if (!run_phase(names, leave_open, "")) {
                res.inconclusive = true;
                g_events = nullptr;
                vf::g_event_sink = nullptr;
                end_cycle();
                return res;
            }
            if (cy > 0 && retired > 0) { later_cycle_retired = true; }
            // ---- destroy() leaves an empty but usable system (also when called on an already empty one, twice in a row)
            if (do_destroy) {
                if (leave_open) { leave(open_tok); }
                leave_open = false;
                // sometimes a session stays open across destroy() (the project's tests do enter / put / destroy / put / leave)
                const bool across = c.chance(1, 2);
                Token across_tok{};
                if (across && enter(across_tok) != status::OK) { failx("cycle_op_failed", "enter before destroy() failed"); }
                destroy();
                const bool twice = c.chance(1, 2);
                if (twice) { destroy(); }
                tx << (twice ? " destroy x2" : " destroy") << (across ? " (one session open across it)" : "");
                if (across) {
                    auto* ti = static_cast<thread_info*>(across_tok);
                    ++st.checks;
                    if (!ti->get_running() || ti->get_begin_epoch() == 0) { failx("destroy_closed_open_session", "destroy() cleared the slot of a session that is still open"); }
                    Token other{};
                    if (enter(other) != status::OK) { failx("destroy_unusable", "enter fails after destroy()"); }
                    ++st.checks;
                    if (other == across_tok) { failx("destroy_closed_open_session", "after destroy() enter hands out the token of a session that is still open"); }
                    leave(other);
                    leave(across_tok);
                }
                std::vector<std::pair<std::string, tree_instance*>> lst;
                ++st.checks;
                if (list_storages(lst) != status::WARN_NOT_EXIST) { failx("destroy_not_empty", "storages survive destroy()"); }
                // every session was left before: destroy() must not keep one for itself
                for (auto& ti : thread_info_table::get_thread_info_table()) {
                    ++st.checks;
                    if (ti.get_running()) { failx("destroy_slots_not_free", "a session slot is marked running after destroy() although every session was left"); }
                }
                if (create_storage("after") != status::OK) { failx("destroy_unusable", "create_storage fails after destroy()"); }
                Token tok{};
                enter(tok);
                std::string v = "x";
                if (put<char>(tok, "after", "k", v.data(), 1) != status::OK) { failx("destroy_unusable", "put fails after destroy()"); }
                std::pair<char*, std::size_t> out{};
                if (get<char>("after", "k", out) != status::OK) { failx("destroy_unusable", "get fails after destroy()"); }
                leave(tok);
                // ... and the system keeps working like before: epoch progress and reclamation while running
                if (!run_phase({"after"}, false, "after destroy ")) {
                    res.inconclusive = true;
                    g_events = nullptr;
                    vf::g_event_sink = nullptr;
                    end_cycle();
                    return res;
                }
            }
            g_events = nullptr;
            vf::g_event_sink = nullptr;
            end_cycle(); // fin(), possibly with a session still open
        }
        if (record) {
            st.cls("cycles_" + std::to_string(cycles));
            if (later_cycle_retired) { st.cls("later_cycle_retired"); }
            if (cycles >= 2 && later_cycle_retired) {
                st.nontrivial(vf::fnv1a(tx.str()));
                if (st.want_sample("cycles")) { st.sample("cycles", tx.str()); }
            }
        }
    } catch (const Fail& f) {
        res.pass = false;
        res.signature = f.signature;
        res.message = f.message;
        g_events = nullptr;
        vf::g_event_sink = nullptr;
        end_cycle();
    }
    return res;
}

// =====================================================================================================
// C07
// =====================================================================================================
enum class StepK : std::uint8_t { Enter, Leave, Get, Scan, PutHold, Remove, Overwrite, GetMiss, Validate, EmptyBorder, Tick, PartialTick };
struct Step {
    StepK k;
    unsigned key;
};
struct Held {
    const void* ptr;
    std::string bytes; // expected contents (values); empty for node version pointers
    bool node;
    std::string what;
};

inline vf::CaseResult run_c07(const vf::RunnerArgs& /*args*/, const std::vector<std::uint8_t>& bytes, bool record, vf::Stats& st) {
    vf::CaseResult res;
    Chooser c(bytes);
    auto& S = sched::Scheduler::get();
    unsigned nkeys = 3 + c.range(0, 9);
    unsigned nt = 2 + c.range(0, 2);
    std::vector<std::vector<Step>> prog(nt);
    std::ostringstream tx;
    tx << "keys=" << nkeys << "\n";
    static const char* names[] = {"enter", "leave", "get", "scan", "put_hold", "remove", "overwrite", "get_miss", "validate", "empty_border", "tick", "partial_tick"};
    const bool v2 = vf::g_decoder >= 2;
    // partial tick: the epoch (or gc) thread passes only a few yield points of its iteration and then the worker goes on, so that
    // enters / leaves / retirements fall between two slot reads of one scan of the session table
    auto maybe_partial = [&](unsigned t) {
        if (v2 && c.chance(1, 3)) {
            unsigned arg = c.range(0, 255); // bit 7: gc thread, low bits: number of yield points
            prog[t].push_back({StepK::PartialTick, arg});
            tx << " partial_tick(" << ((arg & 0x80U) != 0 ? "gc," : "epoch,") << 1 + (arg & 0x3fU) << ")";
        }
    };
    for (unsigned t = 0; t < nt; ++t) {
        unsigned nsess = 1 + c.range(0, 2);
        tx << " T" << t << ":";
        for (unsigned s = 0; s < nsess; ++s) {
            maybe_partial(t);
            prog[t].push_back({StepK::Enter, 0});
            tx << " enter";
            unsigned nops = 1 + c.range(0, 4);
            for (unsigned i = 0; i < nops; ++i) {
                auto k = static_cast<StepK>(2 + c.weighted({4, 2, 2, 4, 4, 1, 2, 1, 5}));
                unsigned key = c.range(0, nkeys - 1);
                prog[t].push_back({k, key});
                tx << " " << names[static_cast<int>(k)] << "(" << key << ")";
                if (i == 0) { maybe_partial(t); }
            }
            prog[t].push_back({StepK::Leave, 0});
            tx << " leave";
            maybe_partial(t);
            if (c.chance(1, 2)) {
                prog[t].push_back({StepK::Tick, c.range(0, 7)});
                tx << " tick";
            }
        }
        tx << "\n";
    }
    std::vector<Ev> events;
    std::vector<std::string> errs(nt);
    struct SessRec {
        int thread;
        std::uint64_t enter_resp, leave_inv;
    };
    std::vector<std::vector<SessRec>> sess(nt);
    std::uint32_t next_id = 1000;
    bool held_across_retire = false;
    try {
        auto failx = [&](const std::string& sig, const std::string& m) { throw Fail{sig, m + "\n" + tx.str()}; };
        g_events = &events;
        vf::g_event_sink = event_sink;
        start_cycle();
        create_storage("s");
        {
            Token tok{};
            enter(tok);
            for (unsigned i = 0; i < nkeys; ++i) {
                std::string k = "k" + std::string(1, static_cast<char>('a' + i));
                std::string v = vbytes(i + 1);
                put<char>(tok, "s", k, v.data(), v.size());
            }
            // a second border that can be emptied (node retire): keys under another first byte, 16 of them => split
            for (unsigned i = 0; i < 16; ++i) {
                std::string k = "z" + std::string(1, static_cast<char>('a' + i));
                std::string v = vbytes(500 + i);
                put<char>(tok, "s", k, v.data(), v.size());
            }
            leave(tok);
        }
        track::quarantine(true);
        std::vector<std::function<void()>> bodies;
        for (unsigned t = 0; t < nt; ++t) {
            bodies.emplace_back([&, t] {
                Token tok{};
                bool open = false;
                std::vector<Held> held;
                auto validate = [&](const char* when) {
                    sched::NoYield g;
                    // state invariant behind the guarantee (anchors of C07: gc epoch = min(begin epochs) - 1): from the moment enter
                    // returned until leave is called, the gc epoch stays strictly below this session's begin epoch.  If it does not,
                    // an object retired by a session one epoch behind is released under this session's feet.
                    if (open) {
                        const Epoch mine = static_cast<thread_info*>(tok)->get_begin_epoch();
                        const Epoch gce = garbage_collection::get_gc_epoch();
                        if (mine != 0 && gce >= mine && errs[t].empty()) {
                            errs[t] = std::string("gc_epoch_not_below_open_session|the gc epoch is ") + std::to_string(gce) + " while this session, begun at epoch " + std::to_string(mine) +
                                      ", is still open (" + when + "): objects tagged " + std::to_string(mine - 1) + " can be released although this session may hold them";
                        }
                    }
                    for (auto& h : held) {
                        if (track::is_quarantined(h.ptr)) {
                            if (errs[t].empty()) { errs[t] = std::string("freed_while_session_open|") + h.what + " was released (" + when + ") while the session that obtained it is still open"; }
                            return;
                        }
                        if (!h.node && std::memcmp(h.ptr, h.bytes.data(), h.bytes.size()) != 0) {
                            if (errs[t].empty()) { errs[t] = std::string("contents_changed_while_session_open|") + h.what + " changed its contents (" + when + ") while the session is still open"; }
                            return;
                        }
                    }
                };
                for (auto& stp : prog[t]) {
                    sched::op_boundary();
                    if (open) { validate("before the next operation"); }
                    std::string k = "k" + std::string(1, static_cast<char>('a' + stp.key));
                    switch (stp.k) {
                        case StepK::Enter: {
                            while (enter(tok) != status::OK) {}
                            open = true;
                            sess[t].push_back({static_cast<int>(t), S.now(), ~0ULL});
                            break;
                        }
                        case StepK::Leave: {
                            validate("at leave");
                            held.clear();
                            sess[t].back().leave_inv = S.now();
                            leave(tok);
                            open = false;
                            break;
                        }
                        case StepK::Get: {
                            std::pair<char*, std::size_t> out{};
                            tl_call_inv = S.now();
                            status rc = get<char>("s", k, out);
                            tl_call_inv = 0;
                            if (rc == status::OK && out.first != nullptr) {
                                sched::NoYield g;
                                held.push_back({out.first, std::string(out.first, out.second), false, "value of get(" + k + ")"});
                            }
                            break;
                        }
                        case StepK::Scan: {
                            std::vector<std::tuple<std::string, char*, std::size_t>> tl;
                            std::vector<std::pair<node_version64_body, node_version64*>> nvv;
                            tl_call_inv = S.now();
                            status rc = scan<char>("s", "", scan_endpoint::INF, "", scan_endpoint::INF, tl, &nvv);
                            tl_call_inv = 0;
                            if (rc == status::OK) {
                                sched::NoYield g;
                                for (auto& tp : tl) {
                                    if (std::get<1>(tp) != nullptr) { held.push_back({std::get<1>(tp), std::string(std::get<1>(tp), std::get<2>(tp)), false, "value of scan entry " + std::get<0>(tp)}); }
                                }
                                for (auto& [v, p] : nvv) { held.push_back({p, "", true, "node version pointer from scan"}); }
                            }
                            break;
                        }
                        case StepK::PutHold:
                        case StepK::Overwrite: {
                            std::string v = vbytes(next_id++);
                            char* created = nullptr;
                            tl_call_inv = S.now();
                            status rc = put<char>(tok, "s", k, v.data(), v.size(), &created);
                            tl_call_inv = 0;
                            if (rc == status::OK && created != nullptr && stp.k == StepK::PutHold) { held.push_back({created, v, false, "created_value_ptr of put(" + k + ")"}); }
                            break;
                        }
                        case StepK::Remove: {
                            tl_call_inv = S.now();
                            remove(tok, "s", k);
                            tl_call_inv = 0;
                            break;
                        }
                        case StepK::GetMiss: {
                            std::pair<char*, std::size_t> out{};
                            std::pair<node_version64_body, node_version64*> cv{};
                            std::string mk = k + "_absent";
                            tl_call_inv = S.now();
                            status rc = get<char>("s", mk, out, &cv);
                            tl_call_inv = 0;
                            if (rc == status::WARN_NOT_EXIST && cv.second != nullptr) { held.push_back({cv.second, "", true, "checked_version node pointer of get(" + mk + ")"}); }
                            break;
                        }
                        case StepK::EmptyBorder: {
                            // remove the 'z' keys one after another: empties (and retires) a border node
                            for (unsigned i = 0; i < 16; ++i) {
                                std::string zk = "z" + std::string(1, static_cast<char>('a' + i));
                                tl_call_inv = S.now();
                                remove(tok, "s", zk);
                                tl_call_inv = 0;
                            }
                            break;
                        }
                        case StepK::PartialTick: {
                            S.grant_background_steps((stp.key & 0x80U) != 0 ? yv::TH_GC : yv::TH_EPOCH, 1 + (stp.key & 0x3fU));
                            break;
                        }
                        case StepK::Tick: {
                            // the thread is idle for a while: virtual time passes (background threads run), the session stays open
                            for (unsigned i = 0; i < 2 + stp.key % 5; ++i) { S.grant_background(); }
                            break;
                        }
                        default: validate("explicit validation");
                    }
                }
                if (open) { leave(tok); }
            });
        }
        S.step_limit = 3000000;
        S.clock = 0;
        // preempt at session / epoch / gc accesses, sleeps and op boundaries (the windows of the reclamation protocol)
        S.preempt_cats = (1U << 1U) | (1U << 2U) | (1U << 3U) | (1U << 7U);
        sched::RevBytes rb(bytes.data(), bytes.size());
        sched::Outcome oc = S.run(std::move(bodies), rb);
        S.preempt_cats = 0xffffffffU;
        g_events = nullptr;
        vf::g_event_sink = nullptr;
        if (oc == sched::Outcome::Released) {
            res.inconclusive = true;
            track::quarantine(false);
            end_cycle();
            track::flush_quarantine();
            return res;
        }
        std::uint64_t reclaims = 0;
        std::uint64_t retires = 0;
        for (auto& ev : events) {
            if (ev.ev == yv::EV_RECLAIM_VALUE || ev.ev == yv::EV_RECLAIM_NODE) { ++reclaims; }
            if (ev.ev == yv::EV_RETIRE_VALUE || ev.ev == yv::EV_RETIRE_NODE) { ++retires; }
        }
        tx << " steps=" << S.steps << " preemptions=" << S.preemptions << " retires=" << retires << " reclaims_while_running=" << reclaims
           << " epoch_iters=" << S.bg_iterations(yv::TH_EPOCH) << " gc_iters=" << S.bg_iterations(yv::TH_GC) << "\n";
        // ---- oracle A: held pointers
        for (unsigned t = 0; t < nt; ++t) {
            ++st.checks;
            if (!errs[t].empty()) {
                auto bar = errs[t].find('|');
                failx(errs[t].substr(0, bar), "T" + std::to_string(t) + ": " + errs[t].substr(bar + 1));
            }
        }
        // ---- oracle B: no reclaim of an object while a session that was open when the retiring call was invoked is still open
        std::map<const void*, const Ev*> retire_of;
        for (auto& ev : events) {
            if (ev.ev == yv::EV_RETIRE_VALUE || ev.ev == yv::EV_RETIRE_NODE) { retire_of[ev.obj] = &ev; }
            if (ev.ev == yv::EV_RECLAIM_VALUE || ev.ev == yv::EV_RECLAIM_NODE) {
                auto it = retire_of.find(ev.obj);
                if (it == retire_of.end()) { continue; }
                const Ev* r = it->second;
                std::uint64_t call_inv = r->call_inv != 0 ? r->call_inv : r->t;
                for (auto& v : sess) {
                    for (auto& s0 : v) {
                        ++st.checks;
                        if (s0.enter_resp < call_inv && s0.leave_inv > ev.t) {
                            held_across_retire = true;
                            failx("reclaimed_while_older_session_open",
                                  "an object retired by a call invoked at t=" + std::to_string(call_inv) + " (tag epoch " + std::to_string(r->a) + ") was released at t=" +
                                          std::to_string(ev.t) + " (gc epoch " + std::to_string(ev.b) + ") while the session of T" + std::to_string(s0.thread) + " opened at t=" +
                                          std::to_string(s0.enter_resp) + " is still open");
                        }
                    }
                }
                retire_of.erase(it);
            }
        }
        // non-trivial: something was retired while another session was open, and something was reclaimed during the run
        bool retire_under_open_session = false;
        for (auto& ev : events) {
            if (ev.ev != yv::EV_RETIRE_VALUE && ev.ev != yv::EV_RETIRE_NODE) { continue; }
            for (auto& v : sess) {
                for (auto& s0 : v) {
                    if (s0.thread != ev.thread && s0.enter_resp < ev.t && s0.leave_inv > ev.t) { retire_under_open_session = true; }
                }
            }
        }
        if (record) {
            if (reclaims > 0) { st.cls("reclaim_during_run"); }
            if (retire_under_open_session) { st.cls("retire_under_open_session"); }
            if (S.bg_iterations(yv::TH_EPOCH) == 0) { st.cls("epoch_thread_never_ran"); }
            if (reclaims > 0 && retire_under_open_session) {
                std::uint64_t fp = vf::fnv1a(tx.str());
                fp = vf::fnv1a(S.trace.data(), S.trace.size(), fp);
                st.nontrivial(fp);
                if (st.want_sample("c07")) { st.sample("c07", tx.str()); }
            }
        }
        (void) held_across_retire;
        track::quarantine(false);
        end_cycle();
        track::flush_quarantine();
    } catch (const Fail& f) {
        res.pass = false;
        res.signature = f.signature;
        res.message = f.message;
        g_events = nullptr;
        vf::g_event_sink = nullptr;
        track::quarantine(false);
        end_cycle();
        track::flush_quarantine();
    }
    return res;
}

} // namespace epo
