// SCHED engine front-end.
#define VF_DEFINE_SCHED_HOOKS
#include "sched.h"

#include "sched_dml.h"
#include "sched_misc.h"
#ifdef VF_ALLOC_TRACK
#define VF_ALLOC_TRACK_IMPL
#include "sched_epoch.h"
#endif

int main(int argc, char** argv) {
    FLAGS_logtostderr = true;
    FLAGS_minloglevel = 3;
    google::InitGoogleLogging(argv[0]);
    vf::RunnerArgs args = vf::parse_args(argc, argv);
#ifdef VF_ALLOC_TRACK
    track::enable(true);
    if (args.prop == "C16" || args.prop == "C07") {
        // every case must be a pure function of its bytes: the first init()/fin() cycle of a process can only happen once, so
        // it is spent here and every generated cycle is "a later cycle" (which is what C16 is about)
        yakushima::init();
        yakushima::fin();
    }
#endif
    return vf::runner_main(args, [](const vf::RunnerArgs& a, const std::vector<std::uint8_t>& b, bool record, vf::Stats& st) {
#ifdef VF_ALLOC_TRACK
        if (a.prop == "C16") { return epo::run_c16(a, b, record, st); }
        if (a.prop == "C07") { return epo::run_c07(a, b, record, st); }
#endif
        if (a.prop == "C14") { return misc::run_sessions(a, b, record, st); }
        if (a.prop == "C17") { return misc::run_version(a, b, record, st); }
        if (a.prop == "C13") { return misc::run_ddl(a, b, record, st); }
        return dml::run_case(a, b, record, st);
    });
}
