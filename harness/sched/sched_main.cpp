// SCHED engine front-end.
#define VF_DEFINE_SCHED_HOOKS
#include "sched.h"

#include "sched_dml.h"
#include "sched_misc.h"

int main(int argc, char** argv) {
    FLAGS_logtostderr = true;
    FLAGS_minloglevel = 3;
    google::InitGoogleLogging(argv[0]);
    vf::RunnerArgs args = vf::parse_args(argc, argv);
    return vf::runner_main(args, [](const vf::RunnerArgs& a, const std::vector<std::uint8_t>& b, bool record, vf::Stats& st) {
        if (a.prop == "C14") { return misc::run_sessions(a, b, record, st); }
        if (a.prop == "C17") { return misc::run_version(a, b, record, st); }
        if (a.prop == "C13") { return misc::run_ddl(a, b, record, st); }
        return dml::run_case(a, b, record, st);
    });
}
