// SCHED engine front-end.
#define VF_DEFINE_SCHED_HOOKS
#include "sched.h"

#include "sched_dml.h"
#include "sched_misc.h"
#ifdef VF_ALLOC_TRACK
#define VF_ALLOC_TRACK_IMPL
#include "sched_epoch.h"
#endif

#ifdef VF_ALLOC_TRACK
// C11 (SCHED part): the DDL races of C13 under allocation accounting: whatever a losing create_storage / delete_storage
// allocated speculatively must be released again.
using CaseFn = vf::CaseResult (*)(const vf::RunnerArgs&, const std::vector<std::uint8_t>&, bool, vf::Stats&);
static vf::CaseResult run_dml_as_c01(const vf::RunnerArgs& a, const std::vector<std::uint8_t>& b, bool record, vf::Stats& st) {
    // point-operation races (profile of C01) judged only by the allocation balance here
    vf::RunnerArgs aa = a;
    aa.prop = "C01";
    aa.extra.clear();
    vf::CaseResult r = dml::run_case(aa, b, record, st);
    return r;
}
static vf::CaseResult run_ddl_leak(const vf::RunnerArgs& a, const std::vector<std::uint8_t>& b, bool record, vf::Stats& st) {
    static std::uint32_t gen = 100;
    static bool warmed = false;
    const CaseFn inner = a.extra == "dml" ? run_dml_as_c01 : misc::run_ddl;
    auto once = [&](bool judge, bool rec) {
        vf::CaseResult r;
        const std::uint32_t g = ++gen;
        const std::uint64_t err0 = track::errors();
        std::uint64_t leaked = 0;
        std::uint64_t leaked_bytes = 0;
        {
            vf::Stats tmp;
            track::set_generation(g);
            r = inner(a, b, rec, tmp);
            track::set_generation(0);
            if (rec) {
                st.checks += tmp.checks;
                for (auto& [k, v] : tmp.classes) { st.cls(k, v); }
                for (auto fp : tmp.nontrivial_fp) { st.nontrivial(fp); }
                for (auto& [k, v] : tmp.samples) {
                    for (auto& s : v) { st.sample(k, s); }
                }
            }
            track::set_generation(g);
        }
        track::set_generation(0);
        leaked = track::live_in_generation(g, &leaked_bytes);
        if (judge && r.pass && !r.inconclusive) {
            ++st.checks;
            if (leaked != 0) {
                char buf[400];
                track::describe_generation(g, buf, sizeof buf);
                r.pass = false;
                r.signature = "leak";
                r.message = std::to_string(leaked) + " block(s), " + std::to_string(leaked_bytes) + " bytes allocated during the case are still live after every storage was destroyed and every retire queue drained: " + buf + (r.message.empty() ? "" : "\n" + r.message);
            } else if (track::errors() != err0) {
                r.pass = false;
                r.signature = "bad_delete";
                r.message = track::last_error();
            }
        }
        return r;
    };
    if (!warmed) {
        warmed = true;
        std::vector<std::uint8_t> rich(120);
        for (std::size_t i = 0; i < rich.size(); ++i) { rich[i] = static_cast<std::uint8_t>(i * 29 + 3); }
        vf::RunnerArgs aa = a;
        (void) aa;
        once(false, false);
        std::swap(rich, const_cast<std::vector<std::uint8_t>&>(b));
        once(false, false);
        std::swap(rich, const_cast<std::vector<std::uint8_t>&>(b));
    }
    if (a.mode == "replay") { once(false, false); }
    return once(true, record);
}
#endif

int main(int argc, char** argv) {
    FLAGS_logtostderr = true;
    FLAGS_minloglevel = 3;
    google::InitGoogleLogging(argv[0]);
    vf::RunnerArgs args = vf::parse_args(argc, argv);
#ifdef VF_ALLOC_TRACK
    track::enable(true);
    sched::Scheduler::get().prewarm(6);
    (void) vf::slice_pool(); // function-local static: first use must not be attributed to a case
    if (args.prop == "C16" || args.prop == "C07") {
        // every case must be a pure function of its bytes: the first init()/fin() cycle of a process can only happen once, so
        // it is spent here and every generated cycle is "a later cycle" (which is what C16 is about)
        epo::warmup_cycle();
    }
#endif
    return vf::runner_main(args, [](const vf::RunnerArgs& a, const std::vector<std::uint8_t>& b, bool record, vf::Stats& st) {
#ifdef VF_ALLOC_TRACK
        if (a.prop == "C16") { return epo::run_c16(a, b, record, st); }
        if (a.prop == "C07") { return epo::run_c07(a, b, record, st); }
        if (a.prop == "C11") { return run_ddl_leak(a, b, record, st); }
#endif
        if (a.prop == "C09" && a.extra == "lockparent") { return misc::run_lockparent(a, b, record, st); }
        if (a.prop == "C14") { return misc::run_sessions(a, b, record, st); }
        if (a.prop == "C17") { return misc::run_version(a, b, record, st); }
        if (a.prop == "C13") { return misc::run_ddl(a, b, record, st); }
        return dml::run_case(a, b, record, st);
    });
}
