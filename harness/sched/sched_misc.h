// Small SCHED scenario families: session slots (C14), node version word under contention (C17), concurrent DDL (C13).
#pragma once
#include <map>
#include <set>
#include <sstream>
#include <string>
#include <vector>

#include "kvs.h"

#include "../common/chooser.h"
#include "../common/keys.h"
#include "../common/runner.h"
#include "../common/stats.h"
#include "sched.h"

namespace misc {

using namespace yakushima; // NOLINT
using vf::Chooser;

struct Fail {
    std::string signature;
    std::string message;
};

struct Ev {
    std::uint64_t t;
    int ev;
    const void* obj;
    int thread;
};
inline std::vector<Ev>* g_events = nullptr;
inline void event_sink(int ev, const void* obj, std::uint64_t /*a*/, std::uint64_t /*b*/) {
    if (g_events == nullptr || ev >= verif::EV_LOCK_ACQ) { return; }
    int th = sched::tl_self != nullptr ? sched::tl_self->id : -1;
    g_events->push_back(Ev{sched::Scheduler::get().now(), ev, obj, th});
}

inline void reset_sessions() {
    for (auto& ti : thread_info_table::get_thread_info_table()) {
        ti.get_gc_info().fin();
        if (ti.get_running()) {
            ti.set_begin_epoch(0);
            ti.set_running(false);
        }
    }
}

// =====================================================================================================
// C14: sessions
// =====================================================================================================
struct SessCall {
    int thread;
    bool is_enter;
    status rc;
    Token tok;
    std::uint64_t inv, resp;
    Epoch begin_at_return{0};
    Epoch begin_before_leave{0};
};

inline vf::CaseResult run_sessions(const vf::RunnerArgs& /*args*/, const std::vector<std::uint8_t>& bytes, bool record, vf::Stats& st) {
    vf::CaseResult res;
    Chooser c(bytes);
    constexpr std::size_t cap = YAKUSHIMA_MAX_PARALLEL_SESSIONS;
    unsigned nt = 2 + c.range(0, 3);
    // per thread: sequence of enter / leave-one-of-mine actions
    struct Act {
        bool enter;
        unsigned which;
    };
    std::vector<std::vector<Act>> prog(nt);
    std::ostringstream tx;
    tx << "capacity=" << cap << "\n";
    for (unsigned t = 0; t < nt; ++t) {
        unsigned n = 1 + c.range(0, 5);
        unsigned open = 0;
        tx << " T" << t << ":";
        for (unsigned i = 0; i < n; ++i) {
            bool ent = open == 0 || c.chance(3, 5);
            if (ent) {
                prog[t].push_back({true, 0});
                ++open; // may fail at run time; leave picks among the actually open ones
                tx << " enter";
            } else {
                prog[t].push_back({false, c.range(0, 7)});
                if (open > 0) { --open; }
                tx << " leave";
            }
        }
        tx << "\n";
    }
    auto& S = sched::Scheduler::get();
    std::vector<std::vector<SessCall>> calls(nt);
    std::vector<Ev> events;
    g_events = &events;
    vf::g_event_sink = event_sink;
    S.clock = 0;
    // large capacities (the header default is 300): the table is filled up to the last few slots before the threads start, one enter
    // at a time (each is judged by the sequential rule: it must succeed), so that the concurrent part runs at the capacity limit
    std::vector<SessCall> prefill;
    if (cap > 4 && c.chance(3, 4)) {
        const std::size_t n_pre = cap - c.range(0, 3);
        tx << " prefill: " << n_pre << " sessions opened one by one before the threads start\n";
        for (std::size_t i = 0; i < n_pre; ++i) {
            SessCall sc{};
            sc.thread = -1;
            sc.is_enter = true;
            Token tok{};
            sc.inv = S.now();
            sc.rc = enter(tok);
            sc.resp = S.now();
            sc.tok = tok;
            if (sc.rc == status::OK) { sc.begin_at_return = static_cast<thread_info*>(tok)->get_begin_epoch(); }
            prefill.push_back(sc);
        }
    }
    // the epoch may advance at any moment of an enter (the epoch thread is not an enter or a leave): a ticker thread advances it a
    // few times; no rule below depends on the epoch, so enter must behave exactly as without it
    const unsigned ticks = (vf::g_decoder >= 2 && c.chance(1, 2)) ? 1 + c.range(0, 3) : 0;
    if (ticks != 0) { tx << " epoch ticker: " << ticks << " increments\n"; }
    std::vector<std::function<void()>> bodies;
    for (unsigned t = 0; t < nt; ++t) {
        bodies.emplace_back([&, t] {
            std::vector<Token> mine;
            for (auto& a : prog[t]) {
                sched::op_boundary();
                SessCall sc{};
                sc.thread = static_cast<int>(t);
                if (a.enter) {
                    sc.is_enter = true;
                    Token tok{};
                    sc.inv = S.now();
                    sc.rc = enter(tok);
                    sc.resp = S.now();
                    sc.tok = tok;
                    if (sc.rc == status::OK) {
                        sched::NoYield g;
                        sc.begin_at_return = static_cast<thread_info*>(tok)->get_begin_epoch();
                        mine.push_back(tok);
                    }
                    calls[t].push_back(sc);
                } else {
                    if (mine.empty()) { continue; }
                    std::size_t idx = a.which % mine.size();
                    sc.is_enter = false;
                    sc.tok = mine[idx];
                    {
                        sched::NoYield g;
                        sc.begin_before_leave = static_cast<thread_info*>(sc.tok)->get_begin_epoch();
                    }
                    sc.inv = S.now();
                    sc.rc = leave(sc.tok);
                    sc.resp = S.now();
                    mine.erase(mine.begin() + static_cast<long>(idx));
                    calls[t].push_back(sc);
                }
            }
            // sessions still open at the end stay open until the case is reset (a user may do that)
        });
    }
    if (ticks != 0) {
        bodies.emplace_back([&] {
            for (unsigned i = 0; i < ticks; ++i) {
                sched::op_boundary();
                epoch_management::epoch_inc();
            }
        });
    }
    S.step_limit = cap > 4 ? 2000000 : 200000;
    S.preempt_cats = 0xffffffffU;
    sched::RevBytes rb(bytes.data(), bytes.size());
    sched::Outcome oc = S.run(std::move(bodies), rb);
    g_events = nullptr;
    vf::g_event_sink = nullptr;
    std::string text = tx.str();
    try {
        if (oc == sched::Outcome::Released) {
            res.inconclusive = true;
            reset_sessions();
            return res;
        }
        std::vector<SessCall> all = prefill;
        for (auto& v : calls) { all.insert(all.end(), v.begin(), v.end()); }
        std::ostringstream hs;
        for (auto& x : all) {
            if (x.thread < 0 && x.rc == status::OK) { continue; } // successful prefill calls are summarised above
            hs << " [T" << x.thread << (x.is_enter ? " enter->" : " leave->") << to_string_view(x.rc) << " tok=" << x.tok << " @" << x.inv << "-" << x.resp << "]";
        }
        text += " history:" + hs.str() + "\n";
        auto failx = [&](const std::string& sig, const std::string& m) { throw Fail{sig, m + "\n" + text}; };
        // sessions: (token, enter_resp, leave_inv)
        struct Sess {
            Token tok;
            std::uint64_t from, to;
            int thread;
        };
        std::vector<Sess> sess;
        auto& table = thread_info_table::get_thread_info_table();
        for (auto& e : all) {
            if (!e.is_enter) {
                if (e.rc != status::OK) { failx("leave_status", "leave returned " + std::string(to_string_view(e.rc))); }
                continue;
            }
            if (e.rc != status::OK && e.rc != status::WARN_MAX_SESSIONS) { failx("enter_status", "enter returned " + std::string(to_string_view(e.rc))); }
            if (e.rc != status::OK) { continue; }
            auto* ti = static_cast<thread_info*>(e.tok);
            if (ti < &table[0] || ti > &table[cap - 1]) { failx("token_outside_table", "enter returned a token that is not a session slot"); }
            std::uint64_t to = ~0ULL;
            for (auto& l : all) {
                if (!l.is_enter && l.tok == e.tok && l.thread == e.thread && l.inv > e.resp && l.inv < to) { to = l.inv; }
            }
            sess.push_back({e.tok, e.resp, to, e.thread});
            ++st.checks;
            if (e.begin_at_return == 0) { failx("session_not_counted", "begin epoch is 0 when enter returns: the session is invisible to reclamation"); }
        }
        for (auto& l : all) {
            if (!l.is_enter && l.begin_before_leave == 0) { failx("session_not_counted", "begin epoch is 0 before leave is called"); }
        }
        // (1) exclusivity
        bool contended = false;
        for (std::size_t i = 0; i < sess.size(); ++i) {
            for (std::size_t j = i + 1; j < sess.size(); ++j) {
                ++st.checks;
                if (sess[i].tok == sess[j].tok && sess[i].from < sess[j].to && sess[j].from < sess[i].to) {
                    failx("token_shared", "two sessions open at the same time hold the same token");
                }
            }
        }
        // (2) capacity
        for (auto& s0 : sess) {
            std::size_t open = 0;
            for (auto& s1 : sess) {
                if (s1.from <= s0.from && s1.to > s0.from) { ++open; }
            }
            if (open > cap) { failx("capacity_exceeded", "more sessions open than YAKUSHIMA_MAX_PARALLEL_SESSIONS"); }
        }
        // slot hold intervals from the claim / release events
        std::map<const void*, std::vector<std::pair<std::uint64_t, std::uint64_t>>> held;
        {
            std::map<const void*, std::uint64_t> open_since;
            for (auto& ev : events) {
                if (ev.ev == verif::EV_SLOT_CLAIM) { open_since[ev.obj] = ev.t; }
                if (ev.ev == verif::EV_SLOT_RELEASE) {
                    auto it = open_since.find(ev.obj);
                    if (it != open_since.end()) {
                        held[ev.obj].emplace_back(it->second, ev.t);
                        open_since.erase(it);
                    }
                }
            }
            for (auto& [o, t0] : open_since) { held[o].emplace_back(t0, ~0ULL); }
        }
        for (auto& e : all) {
            if (!e.is_enter) { continue; }
            bool overlapped = false;
            for (auto& o : all) {
                if (&o != &e && o.inv < e.resp && e.inv < o.resp) { overlapped = true; }
            }
            if (overlapped) { contended = true; }
            if (!overlapped) {
                // (3) sequential rule
                std::size_t open = 0;
                for (auto& s1 : sess) {
                    if (s1.from < e.inv && s1.to > e.resp) { ++open; }
                }
                ++st.checks;
                if ((e.rc == status::OK) != (open < cap)) {
                    failx("enter_sequential_rule", "enter with no other call in flight returned " + std::string(to_string_view(e.rc)) + " with " + std::to_string(open) +
                                                           " of " + std::to_string(cap) + " sessions open");
                }
            }
            if (e.rc == status::WARN_MAX_SESSIONS) {
                // (4) every slot was held at some moment of the call
                for (std::size_t i = 0; i < cap; ++i) {
                    bool h = false;
                    for (auto& iv : held[&table[i]]) {
                        if (iv.first <= e.resp && iv.second >= e.inv) { h = true; }
                    }
                    ++st.checks;
                    if (!h) { failx("max_sessions_with_free_slot", "enter returned WARN_MAX_SESSIONS although slot " + std::to_string(i) + " was free during the whole call"); }
                }
            }
        }
        if (record) {
            bool reuse = false;
            for (std::size_t i = 0; i < sess.size(); ++i) {
                for (std::size_t j = 0; j < sess.size(); ++j) {
                    if (i != j && sess[i].tok == sess[j].tok) { reuse = true; }
                }
            }
            if (reuse) { st.cls("slot_reused"); }
            if (contended) { st.cls("calls_overlapped"); }
            bool saw_max = false;
            for (auto& e : all) {
                if (e.is_enter && e.rc == status::WARN_MAX_SESSIONS) { saw_max = true; }
            }
            if (saw_max) { st.cls("max_sessions_seen"); }
            if (contended && S.preemptions > 0) {
                std::uint64_t fp = vf::fnv1a(text);
                st.nontrivial(fp);
                std::string key = saw_max ? "max_sessions" : (reuse ? "reuse" : "contended");
                if (st.want_sample(key)) { st.sample(key, text); }
            }
        }
    } catch (const Fail& f) {
        res.pass = false;
        res.signature = f.signature;
        res.message = f.message;
    }
    reset_sessions();
    return res;
}

// =====================================================================================================
// C17 (SCHED part): lock / unlock / stable version under contention
// =====================================================================================================
inline vf::CaseResult run_version(const vf::RunnerArgs& /*args*/, const std::vector<std::uint8_t>& bytes, bool record, vf::Stats& st) {
    vf::CaseResult res;
    Chooser c(bytes);
    const bool v2 = vf::g_decoder >= 2;
    unsigned nt = 2 + c.range(0, 2);
    struct Prog {
        unsigned role; // 0 = reader, 1 = writer (lock / flag / unlock), 2 = setter (flag CAS loops WITHOUT holding the lock)
        unsigned rounds;
        std::vector<unsigned> flags; // writer: bit0 = inserting, bit1 = splitting; setter: op code
    };
    std::vector<Prog> prog(nt);
    std::ostringstream tx;
    bool any_writer = false;
    bool any_reader = false;
    bool any_setter = false;
    // a setter owns the fields it sets (one setter per case), so the final value of each field is known
    for (unsigned t = 0; t < nt; ++t) {
        bool w = t == 0 ? true : (t == 1 ? c.flip() : c.flip());
        prog[t].role = w ? 1 : 0;
        prog[t].rounds = 1 + c.range(0, 2);
        for (unsigned r = 0; r < prog[t].rounds; ++r) { prog[t].flags.push_back(c.range(0, 3)); }
    }
    if (v2 && c.chance(1, 2)) {
        // the last thread becomes the setter: root / border / deleted flags and the atomic insert-counter increment, as
        // interior_node::delete_of does with atomic_set_version_root on a sibling it has not locked
        Prog& p = prog[nt - 1];
        p.role = 2;
        p.rounds = 1 + c.range(0, 3);
        p.flags.clear();
        for (unsigned r = 0; r < p.rounds; ++r) { p.flags.push_back(c.range(0, 6)); }
    }
    for (unsigned t = 0; t < nt; ++t) {
        tx << " T" << t << (prog[t].role == 1 ? ":writer" : (prog[t].role == 2 ? ":setter" : ":reader")) << "x" << prog[t].rounds;
        if (prog[t].role == 2) {
            tx << "(";
            for (auto f : prog[t].flags) {
                static const char* names[] = {"root=1", "root=0", "border=1", "border=0", "deleted=1", "deleted=0", "inc_vinsert"};
                tx << names[f] << " ";
            }
            tx << ")";
        }
        (prog[t].role == 1 ? any_writer : (prog[t].role == 2 ? any_setter : any_reader)) = true;
    }
    auto* nv = new node_version64(); // NOLINT (heap: must not look like a stack-local object to the scheduler)
    nv->init();
    // counters near the wrap boundary sometimes
    if (c.chance(1, 4)) {
        node_version64_body b = nv->get_body();
        for (int i = 0; i < 3; ++i) { b.inc_vsplit(); }
        nv->set_body(b);
    }
    const node_version64_body initial = nv->get_body();
    auto& S = sched::Scheduler::get();
    int owner = -1;
    std::uint64_t flagged_inv = 0;
    std::uint64_t flagged_done = 0;
    std::uint64_t ins_unlocks = 0;
    std::uint64_t split_unlocks = 0;
    std::uint64_t atomic_incs = 0;
    int want_root = -1;
    int want_border = -1;
    int want_deleted = -1;
    std::vector<std::string> errs(nt);
    bool equal_pair_seen = false;
    std::vector<std::function<void()>> bodies;
    for (unsigned t = 0; t < nt; ++t) {
        bodies.emplace_back([&, t] {
            for (unsigned r = 0; r < prog[t].rounds; ++r) {
                if (prog[t].role == 1) {
                    nv->lock();
                    if (owner != -1) { errs[t] = "lock returned while T" + std::to_string(owner) + " holds the lock"; }
                    owner = static_cast<int>(t);
                    unsigned f = prog[t].flags[r];
                    if ((f & 1U) != 0) { nv->atomic_set_inserting_deleting(true); }
                    if ((f & 2U) != 0) { nv->atomic_set_splitting(true); }
                    if (owner != static_cast<int>(t)) { errs[t] = "another thread entered the critical section"; }
                    if (!nv->get_body().get_locked()) { errs[t] = "the lock bit vanished under its owner"; }
                    owner = -1;
                    if (f != 0) { ++flagged_inv; }
                    if ((f & 1U) != 0) { ++ins_unlocks; }
                    if ((f & 2U) != 0) { ++split_unlocks; }
                    nv->unlock();
                    if (f != 0) { ++flagged_done; }
                } else if (prog[t].role == 2) {
                    switch (prog[t].flags[r]) {
                        case 0: nv->atomic_set_root(true); want_root = 1; break;
                        case 1: nv->atomic_set_root(false); want_root = 0; break;
                        case 2: nv->atomic_set_border(true); want_border = 1; break;
                        case 3: nv->atomic_set_border(false); want_border = 0; break;
                        case 4: nv->atomic_set_deleted(true); want_deleted = 1; break;
                        case 5: nv->atomic_set_deleted(false); want_deleted = 0; break;
                        default:
                            nv->atomic_inc_vinsert();
                            ++atomic_incs;
                            ++flagged_inv;
                            ++flagged_done;
                    }
                    sched::op_boundary();
                } else {
                    node_version64_body v1 = nv->get_stable_version();
                    std::uint64_t inv_at_v1 = flagged_inv;
                    if (v1.get_locked() || v1.get_inserting_deleting() || v1.get_splitting()) { errs[t] = "stable version is locked or dirty"; }
                    sched::op_boundary();
                    std::uint64_t done_at_v2 = flagged_done;
                    node_version64_body v2b = nv->get_stable_version();
                    if (v2b.get_locked() || v2b.get_inserting_deleting() || v2b.get_splitting()) { errs[t] = "stable version is locked or dirty"; }
                    if (v1 == v2b) {
                        equal_pair_seen = true;
                        if (done_at_v2 > inv_at_v1) { errs[t] = "two equal stable versions although a flagged unlock completed in between"; }
                    }
                }
            }
        });
    }
    S.step_limit = 200000;
    S.clock = 0;
    sched::RevBytes rb(bytes.data(), bytes.size());
    sched::Outcome oc = S.run(std::move(bodies), rb);
    std::string text = tx.str() + " steps=" + std::to_string(S.steps) + " preemptions=" + std::to_string(S.preemptions) + " spin_blocks=" + std::to_string(S.spin_blocks);
    if (oc == sched::Outcome::Released) {
        res.inconclusive = true;
        return res; // nv intentionally leaked: threads may still touch it
    }
    for (unsigned t = 0; t < nt; ++t) {
        ++st.checks;
        if (!errs[t].empty() && res.pass) {
            res.pass = false;
            res.signature = errs[t].find("lock returned") != std::string::npos || errs[t].find("critical") != std::string::npos || errs[t].find("vanished") != std::string::npos
                                    ? "lock_not_exclusive"
                                    : (errs[t].find("dirty") != std::string::npos ? "stable_returned_dirty" : "equal_versions_across_unlock");
            res.message = "T" + std::to_string(t) + ": " + errs[t] + "\n" + text;
        }
    }
    node_version64_body fin = nv->get_body();
    if (res.pass && (fin.get_locked() || fin.get_inserting_deleting() || fin.get_splitting())) {
        res.pass = false;
        res.signature = "lock_left";
        res.message = "word left locked/dirty after all threads finished\n" + text;
    }
    if (res.pass) {
        // every completed operation is in the final word: counters advanced by exactly the flagged unlocks (+ atomic increments),
        // each flag holds what its only setter stored last, nothing else moved
        ++st.checks;
        node_version64_body want = initial;
        for (std::uint64_t i = 0; i < ins_unlocks + atomic_incs; ++i) { want.inc_vinsert_delete(); }
        for (std::uint64_t i = 0; i < split_unlocks; ++i) { want.inc_vsplit(); }
        if (want_root >= 0) { want.set_root(want_root == 1); }
        if (want_border >= 0) { want.set_border(want_border == 1); }
        if (want_deleted >= 0) { want.set_deleted(want_deleted == 1); }
        if (!(fin == want)) {
            res.pass = false;
            res.signature = "final_word_mismatch";
            char buf[200];
            std::snprintf(buf, sizeof(buf), "final word: vinsert=%u vsplit=%u root=%d border=%d deleted=%d, expected vinsert=%u vsplit=%u root=%d border=%d deleted=%d",
                          static_cast<unsigned>(fin.get_vinsert_delete()), static_cast<unsigned>(fin.get_vsplit()), fin.get_root() ? 1 : 0, fin.get_border() ? 1 : 0,
                          fin.get_deleted() ? 1 : 0, static_cast<unsigned>(want.get_vinsert_delete()), static_cast<unsigned>(want.get_vsplit()),
                          want.get_root() ? 1 : 0, want.get_border() ? 1 : 0, want.get_deleted() ? 1 : 0);
            res.message = std::string(buf) + " (an update of one thread was overwritten by another thread's read-modify-write)\n" + text;
        }
    }
    delete nv; // NOLINT
    if (record && res.pass) {
        if (S.spin_blocks > 0) { st.cls("contended_spin"); }
        if (equal_pair_seen) { st.cls("equal_stable_pair"); }
        if (any_setter) { st.cls("unlocked_flag_setter"); }
        if (any_writer && S.preemptions > 0 && (S.spin_blocks > 0 || any_reader || any_setter)) {
            std::uint64_t fp = vf::fnv1a(text);
            fp = vf::fnv1a(S.trace.data(), S.trace.size(), fp);
            st.nontrivial(fp);
            if (st.want_sample("version")) { st.sample("version", text); }
            if (any_setter && st.want_sample("version+setter")) { st.sample("version+setter", text); }
        }
    }
    return res;
}

// =====================================================================================================
// C09 (component scenario): base_node::lock_parent against the most general environment that keeps the documented protocol
// "parent_ of a node is written only by the holder of the current parent's lock (of the root lock for the tree root)".
// One thread holds the lock of node C and calls C->lock_parent(ti); 1-2 mover threads re-parent C the way interior splits (C moves to
// a new, still locked right sibling) and interior collapses (C becomes the tree root; the old parent is deleted) do.  Whatever the
// number of moves, lock_parent must return the node that IS the parent at that moment, locked by the caller (nullptr + root lock for
// the root), and nothing may stay locked afterwards.  The whole-tree scenarios reach two consecutive moves across one lock_parent
// call only with ~190 keys and three preemptions in two-step windows; this scenario reaches them with a handful of steps.
// =====================================================================================================
inline vf::CaseResult run_lockparent(const vf::RunnerArgs& /*args*/, const std::vector<std::uint8_t>& bytes, bool record, vf::Stats& st) {
    vf::CaseResult res;
    Chooser c(bytes);
    const unsigned n_movers = 1 + c.range(0, 1);
    struct Move {
        unsigned kind; // 0 = split-like (new locked sibling), 1 = collapse to root, 2 = split-like, sibling unlocked late
    };
    std::vector<std::vector<Move>> prog(n_movers);
    std::ostringstream tx;
    const bool start_as_root = c.chance(1, 5);
    tx << (start_as_root ? "C starts as the tree root;" : "C starts below an interior;");
    unsigned total_moves = 0;
    for (unsigned m = 0; m < n_movers; ++m) {
        unsigned k = 1 + c.range(0, 2);
        tx << " M" << m << ":";
        for (unsigned i = 0; i < k; ++i) {
            Move mv{static_cast<unsigned>(c.weighted({5, 2, 3}))};
            prog[m].push_back(mv);
            tx << (mv.kind == 0 ? " split" : (mv.kind == 1 ? " collapse" : " split(late unlock)"));
            ++total_moves;
        }
    }
    const unsigned rounds = 1 + c.range(0, 1);
    tx << " caller: " << rounds << "x lock_parent";
    // nodes (heap; intentionally never freed inside the case: see below)
    auto* ti = new tree_instance(); // NOLINT
    auto* C = new border_node();    // NOLINT
    C->init_border();
    std::vector<interior_node*> pool;
    auto fresh = [&pool]() {
        auto* n = new interior_node(); // NOLINT
        n->init_interior();
        pool.push_back(n);
        return n;
    };
    // all nodes a move may need are created up front (no allocation inside the scheduled region)
    for (unsigned i = 0; i < total_moves + 2; ++i) { fresh(); }
    std::size_t next_fresh = 0;
    if (start_as_root) {
        C->set_parent(nullptr);
        ti->store_root_ptr(C);
    } else {
        interior_node* p0 = pool[next_fresh++];
        C->set_parent(p0);
        ti->store_root_ptr(p0);
    }
    auto& S = sched::Scheduler::get();
    std::vector<std::string> errs(n_movers + 1);
    unsigned moves_done = 0;
    unsigned moves_during_call = 0;
    bool in_call = false;
    std::vector<std::function<void()>> bodies;
    // thread 0: the caller
    bodies.emplace_back([&] {
        for (unsigned r = 0; r < rounds; ++r) {
            C->lock();
            in_call = true;
            base_node* p = C->lock_parent(ti);
            in_call = false;
            // judged at once: while the returned lock is held nobody may re-parent C
            base_node* now = C->get_parent();
            if (p != now) {
                errs[0] = "lock_parent returned a node that is not the parent of the caller's node (returned " + std::string(p == nullptr ? "nullptr" : "a node") +
                          ", parent is " + (now == nullptr ? "nullptr" : "another node") + ")";
            } else if (p == nullptr) {
                if (!ti->verif_root_locked()) { errs[0] = "lock_parent returned nullptr without holding the root lock"; }
                if (ti->load_root_ptr() != C) { errs[0] = "lock_parent returned nullptr but the node is not the tree root"; }
            } else if (!p->get_version().get_locked()) {
                errs[0] = "lock_parent returned an unlocked node";
            }
            sched::op_boundary();
            if (p == nullptr) {
                if (ti->verif_root_locked()) { ti->root_unlock(); }
            } else if (p->get_version().get_locked() && p == now) {
                p->version_unlock();
            }
            C->version_unlock();
            sched::op_boundary();
        }
    });
    for (unsigned m = 0; m < n_movers; ++m) {
        bodies.emplace_back([&, m] {
            for (auto& mv : prog[m]) {
                sched::op_boundary();
                // take the lock that guards C's parent pointer (harness code: the documented protocol, written out)
                base_node* cur = nullptr;
                for (;;) {
                    cur = C->get_parent();
                    if (cur == nullptr) { break; }
                    cur->lock();
                    if (C->get_parent() == cur) { break; }
                    cur->version_unlock();
                }
                if (cur == nullptr) {
                    // C is the tree root: only C's own split (which needs C's lock, held by the caller) could give it a parent
                    continue;
                }
                if (mv.kind == 1) {
                    // collapse: C becomes the tree root, the old parent is deleted (interior_node::delete_of, n_keys == 1)
                    if (ti->load_root_ptr() != cur) {
                        cur->version_unlock();
                        continue; // only the root interior collapses into the tree root
                    }
                    ti->root_lock();
                    C->set_parent(nullptr);
                    ti->store_root_ptr(C);
                    cur->set_version_deleted(true);
                    cur->version_unlock();
                    ti->root_unlock();
                } else {
                    // split: C moves to a new right sibling that is still locked by the splitting thread
                    interior_node* sib = pool[next_fresh++];
                    sib->lock();
                    if (ti->load_root_ptr() == cur) { ti->store_root_ptr(sib); } // keeps "root interior" well defined for later collapses
                    C->set_parent(sib);
                    if (mv.kind == 0) {
                        cur->version_unlock();
                        sib->version_unlock();
                    } else {
                        sib->version_unlock();
                        cur->version_unlock();
                    }
                }
                ++moves_done;
                if (in_call) { ++moves_during_call; }
            }
        });
    }
    S.step_limit = 200000;
    S.clock = 0;
    S.fatal_on_step_limit = true;
    sched::RevBytes rb(bytes.data(), bytes.size());
    sched::Outcome oc = S.run(std::move(bodies), rb);
    S.fatal_on_step_limit = false;
    std::string text = tx.str() + " moves=" + std::to_string(moves_done) + " (during a lock_parent call: " + std::to_string(moves_during_call) + ") steps=" +
                       std::to_string(S.steps) + " preemptions=" + std::to_string(S.preemptions) + " spin_blocks=" + std::to_string(S.spin_blocks);
    if (oc == sched::Outcome::Released) {
        res.inconclusive = true;
        return res; // nodes intentionally leaked: threads may still touch them
    }
    for (std::size_t t = 0; t < errs.size(); ++t) {
        ++st.checks;
        if (!errs[t].empty() && res.pass) {
            res.pass = false;
            res.signature = "lock_parent_wrong_node";
            res.message = errs[t] + "\n" + text;
        }
    }
    if (res.pass) {
        bool left = C->get_version().get_locked() || ti->verif_root_locked();
        for (auto* n : pool) {
            if (n->get_version().get_locked()) { left = true; }
        }
        if (left) {
            res.pass = false;
            res.signature = "lock_left";
            res.message = "a node or the root lock is still held after all threads finished\n" + text;
        }
    }
    for (auto* n : pool) { delete n; } // NOLINT
    delete C;                          // NOLINT
    delete ti;                         // NOLINT
    if (record && res.pass) {
        if (moves_during_call >= 1) { st.cls("parent_moved_during_call"); }
        if (moves_during_call >= 2) { st.cls("parent_moved_twice_during_call"); }
        if (S.spin_blocks > 0) { st.cls("contended_spin"); }
        if (moves_during_call >= 1 && S.preemptions > 0) {
            std::uint64_t fp = vf::fnv1a(text);
            fp = vf::fnv1a(S.trace.data(), S.trace.size(), fp);
            st.nontrivial(fp);
            if (st.want_sample("lock_parent")) { st.sample("lock_parent", text); }
        }
    }
    return res;
}

// =====================================================================================================
// C13 (SCHED part): concurrent create / create and delete / delete of one name
// =====================================================================================================
inline vf::CaseResult run_ddl(const vf::RunnerArgs& /*args*/, const std::vector<std::uint8_t>& bytes, bool record, vf::Stats& st) {
    vf::CaseResult res;
    Chooser c(bytes);
    unsigned nt = 2 + c.range(0, 2);
    vf::KeyGenOpts ko;
    std::string name = c.chance(1, 3) ? std::string("t") : vf::gen_fresh_key(c, ko);
    bool warm = c.flip(); // other storages exist already (storages root not null)
    unsigned others = warm ? 1 + c.range(0, 16) : 0;
    bool with_data = c.flip();
    std::ostringstream tx;
    tx << "name=\"" << vf::show(name) << "\" threads=" << nt << (warm ? " warm(" + std::to_string(others) + " other storages)" : " fresh system") << (with_data ? " with data" : "");
    for (unsigned i = 0; i < others; ++i) {
        std::string n2 = "o" + std::to_string(i) + name.substr(0, 3);
        if (n2 != name) { create_storage(n2); }
    }
    auto& S = sched::Scheduler::get();
    std::vector<status> rc_create(nt, status::ERR_FATAL);
    std::vector<status> rc_delete(nt, status::ERR_FATAL);
    std::string text;
    try {
        auto failx = [&](const std::string& sig, const std::string& m) { throw Fail{sig, m + "\n" + text}; };
        // the internal sessions of the DDL calls: every slot release must end a claim of the same slot by the same thread (a call that
        // leaves its session twice releases a slot another call may have claimed in between)
        std::vector<Ev> ddl_events;
        struct SinkGuard {
            ~SinkGuard() {
                g_events = nullptr;
                vf::g_event_sink = nullptr;
            }
        } sink_guard; // the recorder must not outlive the vector on any exit
        g_events = &ddl_events;
        vf::g_event_sink = event_sink;
        auto check_slot_discipline = [&](const char* phase) {
            std::map<const void*, int> owner; // slot -> thread holding it
            for (auto& ev : ddl_events) {
                if (ev.ev == verif::EV_SLOT_CLAIM) { owner[ev.obj] = ev.thread; }
                if (ev.ev == verif::EV_SLOT_RELEASE) {
                    auto it = owner.find(ev.obj);
                    ++st.checks;
                    if (it == owner.end() || it->second != ev.thread) {
                        g_events = nullptr;
                        vf::g_event_sink = nullptr;
                        failx("session_released_twice", std::string("during the concurrent ") + phase + " T" + std::to_string(ev.thread) +
                                                            " released a session slot it does not hold" + (it == owner.end() ? " (the slot is free)" : " (another call holds it)"));
                    }
                    owner.erase(it);
                }
            }
            ddl_events.clear();
        };
        // phase 1: concurrent creates
        {
            std::vector<std::function<void()>> bodies;
            for (unsigned t = 0; t < nt; ++t) {
                bodies.emplace_back([&, t] { rc_create[t] = create_storage(name); });
            }
            S.step_limit = 400000;
            S.clock = 0;
            sched::RevBytes rb(bytes.data(), bytes.size());
            if (S.run(std::move(bodies), rb) == sched::Outcome::Released) {
                res.inconclusive = true;
                destroy();
                reset_sessions();
                return res;
            }
        }
        text = tx.str();
        check_slot_discipline("creates");
        std::uint64_t pre1 = S.preemptions;
        tx << " creates:";
        for (auto r : rc_create) { tx << " " << to_string_view(r); }
        text = tx.str();
        unsigned ok = 0;
        for (auto r : rc_create) {
            ++st.checks;
            if (r == status::OK) {
                ++ok;
            } else if (r != status::WARN_UNIQUE_RESTRICTION) {
                failx("create_storage_status", "concurrent create_storage returned " + std::string(to_string_view(r)));
            }
        }
        if (ok != 1) { failx("create_not_exactly_one", std::to_string(ok) + " of the concurrent create_storage calls reported success"); }
        tree_instance* ti{};
        if (find_storage(name, &ti) != status::OK || ti == nullptr) { failx("created_storage_missing", "storage not found after a successful create"); }
        if (with_data) {
            Token tok{};
            enter(tok);
            for (int i = 0; i < 20; ++i) {
                std::string k = "k" + std::to_string(i);
                put<char>(tok, name, k, k.data(), k.size());
            }
            leave(tok);
        }
        // the other storages are undisturbed
        std::vector<std::pair<std::string, tree_instance*>> lst;
        if (list_storages(lst) != status::OK) { failx("list_storages_status", "list_storages failed after creates"); }
        std::set<std::string> names;
        for (auto& p : lst) { names.insert(p.first); }
        if (names.count(name) != 1 || names.size() != lst.size()) { failx("list_storages_result", "list_storages does not contain exactly one entry of the created name"); }
        // phase 2: concurrent deletes
        {
            std::vector<std::function<void()>> bodies;
            for (unsigned t = 0; t < nt; ++t) {
                bodies.emplace_back([&, t] { rc_delete[t] = delete_storage(name); });
            }
            S.clock = 0;
            // use the front half of the remaining bytes as a different schedule
            sched::RevBytes rb(bytes.data(), bytes.size() / 2);
            if (S.run(std::move(bodies), rb) == sched::Outcome::Released) {
                res.inconclusive = true;
                destroy();
                reset_sessions();
                return res;
            }
        }
        tx << " deletes:";
        for (auto r : rc_delete) { tx << " " << to_string_view(r); }
        text = tx.str();
        check_slot_discipline("deletes");
        g_events = nullptr;
        vf::g_event_sink = nullptr;
        ok = 0;
        for (auto r : rc_delete) {
            ++st.checks;
            if (r == status::OK) {
                ++ok;
            } else if (r != status::WARN_NOT_EXIST && r != status::WARN_CONCURRENT_OPERATIONS) {
                failx("delete_storage_status", "concurrent delete_storage returned " + std::string(to_string_view(r)));
            }
        }
        if (ok != 1) { failx("delete_not_exactly_one", std::to_string(ok) + " of the concurrent delete_storage calls reported success"); }
        if (find_storage(name, nullptr) != status::WARN_NOT_EXIST) { failx("deleted_storage_visible", "storage still found after delete"); }
        lst.clear();
        status lrc = list_storages(lst);
        if (others == 0 ? lrc != status::WARN_NOT_EXIST : lrc != status::OK) { failx("list_storages_status", "list_storages returned " + std::string(to_string_view(lrc)) + " after deletes"); }
        for (auto& tinfo : thread_info_table::get_thread_info_table()) {
            if (tinfo.get_running()) { failx("session_left_open", "a DDL call left its internal session open"); }
        }
        if (record) {
            st.cls(warm ? "warm_system" : "fresh_system_root_cas_race");
            if (pre1 + S.preemptions > 0) {
                st.nontrivial(vf::fnv1a(text + std::to_string(S.steps)));
                if (st.want_sample(warm ? "warm" : "fresh")) { st.sample(warm ? "warm" : "fresh", text); }
            }
        }
    } catch (const Fail& f) {
        res.pass = false;
        res.signature = f.signature;
        res.message = f.message;
    }
    g_events = nullptr;
    vf::g_event_sink = nullptr;
    destroy();
    reset_sessions();
    return res;
}

} // namespace misc
