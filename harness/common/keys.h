// Key / value generators shared by all engines, and the reference order used by every oracle.
#pragma once
#include <algorithm>
#include <cstdint>
#include <cstring>
#include <map>
#include <string>
#include <vector>

#include "chooser.h"

namespace vf {

// ---- reference order -------------------------------------------------------------------------
// Keys are unsigned byte strings, proper prefix first == std::string's operator< (char_traits<char>
// compares as unsigned char).  For (slice,len) tuples the reference order is defined in unit tests
// (C18); here only whole keys are compared, with std::string.

// ---- key generator ---------------------------------------------------------------------------
inline const std::vector<std::string>& slice_pool() {
    static const std::vector<std::string> p = {
            std::string("aaaaaaaa"),
            std::string(8, '\0'),
            std::string(8, '\xff'),
            std::string("aaaaaaab"),
            std::string("aaaa") + std::string(4, '\0'),
            std::string("aaaaaaa") + std::string(1, '\xff'),
    };
    return p;
}

inline std::string gen_tail(Chooser& c, unsigned maxlen = 9) {
    static const unsigned char alpha[] = {0x00, 'a', 'b', 0x01, 0x7f, 0x80, 0xff};
    unsigned n = c.range(0, maxlen);
    std::string t;
    for (unsigned i = 0; i < n; ++i) { t.push_back(static_cast<char>(alpha[c.range(0, 6)])); }
    return t;
}

struct KeyGenOpts {
    bool allow_big{false};      // 4..30 KiB keys
    unsigned big_per_256{2};    // weight of big keys when allowed
    std::size_t big_max{30720};
    unsigned max_slices{3};
};

inline std::string gen_fresh_key(Chooser& c, const KeyGenOpts& o) {
    std::string k;
    unsigned ns = static_cast<unsigned>(c.weighted({5, 4, 2, 1}));
    if (ns > o.max_slices) { ns = o.max_slices; }
    for (unsigned i = 0; i < ns; ++i) {
        unsigned s = c.range(0, 7);
        if (s < 6) {
            k += slice_pool()[s];
        } else {
            std::string r;
            for (int j = 0; j < 8; ++j) { r.push_back(static_cast<char>(c.byte())); }
            k += r;
        }
    }
    k += gen_tail(c);
    return k;
}

// derive a neighbour of an existing key
inline std::string derive_key(Chooser& c, const std::string& base) {
    std::string k = base;
    switch (c.range(0, 9)) {
        case 0: k.push_back('\0'); break;
        case 1: k.push_back(static_cast<char>(c.flip() ? 0xff : 'a')); break;
        case 2:
            if (!k.empty()) { k.pop_back(); }
            break;
        case 3:
            if (!k.empty()) { k.back() = static_cast<char>(static_cast<unsigned char>(k.back()) + 1); }
            break;
        case 4:
            if (!k.empty()) { k.back() = static_cast<char>(static_cast<unsigned char>(k.back()) - 1); }
            break;
        case 5: k.resize(k.size() / 8 * 8); break;                // truncate to slice boundary
        case 6: k.resize((k.size() / 8 + 1) * 8, '\0'); break;    // extend to next boundary with 00
        case 7: k.resize((k.size() / 8 + 1) * 8, '\xff'); break;  // extend with FF
        case 8: {
            static const std::size_t lens[] = {255, 256, 257, 264};
            std::size_t L = lens[c.range(0, 3)];
            if (k.size() < L) { k.resize(L, static_cast<char>(c.flip() ? 'a' : '\0')); }
            break;
        }
        default: {
            // cut at 8k-1, 8k, 8k+1
            if (k.size() > 2) {
                std::size_t cut = (c.range(0, static_cast<std::uint32_t>(k.size() / 8))) * 8;
                int d = static_cast<int>(c.range(0, 2)) - 1;
                long L = static_cast<long>(cut) + d;
                if (L >= 0 && static_cast<std::size_t>(L) <= k.size()) { k.resize(static_cast<std::size_t>(L)); }
            }
        }
    }
    return k;
}

template<class MapT>
inline const std::string& nth_key(const MapT& m, std::size_t n) {
    auto it = m.begin();
    std::advance(it, static_cast<long>(n % m.size()));
    return it->first;
}

// A key for an operation: mostly related to the stored keys so that hits, prefixes and neighbours are
// the norm.  `stored` = keys currently in the model.
template<class MapT>
inline std::string gen_key(Chooser& c, const MapT& stored, const KeyGenOpts& o) {
    unsigned w_exist = stored.empty() ? 0 : 5;
    unsigned w_derive = stored.empty() ? 0 : 4;
    unsigned w_big = o.allow_big ? o.big_per_256 : 0;
    std::size_t m = c.weighted({6, w_exist, w_derive, 0});
    if (w_big != 0 && c.range(0, 255) < w_big) { m = 3; }
    switch (m) {
        case 1: return nth_key(stored, c.range(0, 65535));
        case 2: return derive_key(c, nth_key(stored, c.range(0, 65535)));
        case 3: {
            std::size_t L = 4096 + c.range(0, static_cast<std::uint32_t>(o.big_max - 4096));
            std::string k;
            unsigned mode = c.range(0, 2);
            k.reserve(L);
            for (std::size_t i = 0; i < L; ++i) {
                k.push_back(mode == 0 ? 'a' : (mode == 1 ? '\0' : static_cast<char>(i * 131 + i / 8)));
            }
            return k;
        }
        default: return gen_fresh_key(c, o);
    }
}

// ---- value generator -------------------------------------------------------------------------
// A value is identified by an id; its bytes are a function of (id, len) so a read names the write.
inline std::string value_bytes(std::uint32_t id, std::size_t len) {
    std::string v(len, '\0');
    for (std::size_t i = 0; i < len; ++i) {
        v[i] = static_cast<char>((id * 2654435761U + i * 40503U + (i >> 8U)) >> 7U);
    }
    if (len >= 4) { std::memcpy(v.data(), &id, 4); }
    return v;
}

inline std::size_t gen_value_len(Chooser& c, bool allow_huge) {
    static const std::size_t edge[] = {0, 1, 7, 8, 9, 15, 16, 63, 64, 65, 255, 4095, 4096, 4097, 65535, 65536};
    switch (c.weighted({6, 3, static_cast<unsigned>(allow_huge ? 1 : 0)})) {
        case 0: return c.range(0, 40);
        case 1: return edge[c.range(0, 15)];
        default: return c.flip() ? (1U << 20U) : (5U << 20U);
    }
}
inline std::size_t gen_align(Chooser& c) {
    // 1 .. 4096, powers of two; small alignments most of the time
    if (c.chance(3, 4)) { return std::size_t{1} << c.range(0, 4); }
    return std::size_t{1} << c.range(0, 12);
}

} // namespace vf
