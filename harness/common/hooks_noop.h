// Hook definitions for binaries that do not schedule threads (SEQ / UNIT engines): yields only count,
// so that a single API call that spins forever becomes a deterministic "hang" failure instead of a
// wall-clock timeout.  Events are forwarded to an optional sink.
#pragma once
#include <cstdint>
#include <cstdio>
#include <cstdlib>
#include <functional>
#include <unistd.h>

#include "verif_hook.h"

namespace vf {
inline thread_local std::uint64_t tl_yields = 0;
inline thread_local bool tl_counting = false; // only the case thread counts
inline std::uint64_t g_yield_limit = 200000000ULL;
inline void (*g_hang_handler)() = nullptr;
using EventSink = void (*)(int ev, const void* obj, std::uint64_t a, std::uint64_t b);
inline EventSink g_event_sink = nullptr;
} // namespace vf

#ifdef VF_DEFINE_NOOP_HOOKS
namespace yakushima::verif {
void yield(int /*kind*/, const void* /*addr*/) noexcept {
    if (vf::tl_counting && ++vf::tl_yields > vf::g_yield_limit) {
        if (vf::g_hang_handler != nullptr) { vf::g_hang_handler(); }
        std::fprintf(stderr, "FAIL signature=hang msg=more than %llu yields in one case\n",
                     static_cast<unsigned long long>(vf::g_yield_limit));
        _exit(3);
    }
}
void event(int ev, const void* obj, std::uint64_t a, std::uint64_t b) noexcept {
    if (vf::g_event_sink != nullptr) { vf::g_event_sink(ev, obj, a, b); }
}
bool sleep_hook(std::size_t /*ms*/) noexcept { return false; }
void thread_begin(int /*kind*/) noexcept {}
void thread_end(int /*kind*/) noexcept {}
} // namespace yakushima::verif
#endif
