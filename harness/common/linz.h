// History oracle: per-key linearizability against map semantics (locality: a map is a product of per-key
// registers, so a history is linearizable iff each per-key sub-history is).  Used by C01, C04, C08, C10, C13, C15.
#pragma once
#include <cstdint>
#include <map>
#include <string>
#include <unordered_set>
#include <vector>

namespace vf {

enum class HKind : std::uint8_t { Put, PutUnique, Get, Remove, Read /* pseudo-read injected for a scan / cursor / final state */ };
enum class HRes : std::uint8_t { Ok, NotExist, UniqueRestriction, NotFound };

struct HOp {
    int thread{0};
    HKind kind{HKind::Get};
    std::string key;
    std::uint32_t wid{0}; // value id written (Put / PutUnique)
    HRes res{HRes::Ok};
    std::uint32_t rid{0}; // value id observed (Get / Read with res Ok); 0 = none
    std::uint64_t inv{0}, resp{0};
    std::string note;
};

inline const char* hkind_name(HKind k) {
    switch (k) {
        case HKind::Put: return "put";
        case HKind::PutUnique: return "put_unique";
        case HKind::Get: return "get";
        case HKind::Remove: return "remove";
        default: return "read";
    }
}
inline const char* hres_name(HRes r) {
    switch (r) {
        case HRes::Ok: return "OK";
        case HRes::NotExist: return "NOT_EXIST";
        case HRes::UniqueRestriction: return "UNIQUE_RESTRICTION";
        default: return "NOT_FOUND";
    }
}

// apply op to state (0 = absent); returns false if the recorded result is impossible in this state
inline bool apply_spec(const HOp& op, std::uint32_t& state) {
    switch (op.kind) {
        case HKind::Put:
            if (op.res != HRes::Ok) { return false; }
            state = op.wid;
            return true;
        case HKind::PutUnique:
            if (state == 0) {
                if (op.res != HRes::Ok) { return false; }
                state = op.wid;
                return true;
            }
            return op.res == HRes::UniqueRestriction;
        case HKind::Get:
        case HKind::Read:
            if (state == 0) { return op.res == HRes::NotExist; }
            return op.res == HRes::Ok && op.rid == state;
        case HKind::Remove:
            if (state != 0) {
                if (op.res != HRes::Ok) { return false; }
                state = 0;
                return true;
            }
            return op.res == HRes::NotFound;
    }
    return false;
}

class KeyLinearizer {
public:
    KeyLinearizer(const std::vector<const HOp*>& ops, std::uint32_t initial) : ops_(ops), init_(initial) {}
    bool check() {
        if (ops_.size() > 24) { return true; } // bounded: generators keep per-key histories short
        seen_.clear();
        return dfs(0, init_);
    }

private:
    const std::vector<const HOp*>& ops_;
    std::uint32_t init_;
    std::unordered_set<std::uint64_t> seen_;

    bool dfs(std::uint32_t done_mask, std::uint32_t state) {
        const std::uint32_t full = ops_.size() == 32 ? 0xffffffffU : ((1U << ops_.size()) - 1U);
        if (done_mask == full) { return true; }
        std::uint64_t key = (static_cast<std::uint64_t>(done_mask) << 32U) | state;
        if (!seen_.insert(key).second) { return false; }
        // minimal response among remaining ops
        std::uint64_t min_resp = ~0ULL;
        for (std::size_t i = 0; i < ops_.size(); ++i) {
            if ((done_mask >> i) & 1U) { continue; }
            if (ops_[i]->resp < min_resp) { min_resp = ops_[i]->resp; }
        }
        for (std::size_t i = 0; i < ops_.size(); ++i) {
            if ((done_mask >> i) & 1U) { continue; }
            if (ops_[i]->inv > min_resp) { continue; } // some other op responded before this one was invoked
            std::uint32_t st = state;
            if (!apply_spec(*ops_[i], st)) { continue; }
            if (dfs(done_mask | (1U << i), st)) { return true; }
        }
        return false;
    }
};

// returns "" if every per-key history linearizes, otherwise a description of the first key that does not
inline std::string check_history(const std::vector<HOp>& h, const std::map<std::string, std::uint32_t>& initial,
                                 std::string* bad_key = nullptr) {
    std::map<std::string, std::vector<const HOp*>> by_key;
    for (auto& op : h) { by_key[op.key].push_back(&op); }
    for (auto& [k, ops] : by_key) {
        auto it = initial.find(k);
        std::uint32_t init = it == initial.end() ? 0 : it->second;
        KeyLinearizer lz(ops, init);
        if (!lz.check()) {
            if (bad_key != nullptr) { *bad_key = k; }
            std::string m = "history of key is not linearizable; initial=" + (init == 0 ? std::string("absent") : "v" + std::to_string(init)) + "; ops:";
            for (auto* op : ops) {
                m += " [T" + std::to_string(op->thread) + " " + hkind_name(op->kind);
                if (op->kind == HKind::Put || op->kind == HKind::PutUnique) { m += "(v" + std::to_string(op->wid) + ")"; }
                m += std::string("->") + hres_name(op->res);
                if ((op->kind == HKind::Get || op->kind == HKind::Read) && op->res == HRes::Ok) { m += "(v" + std::to_string(op->rid) + ")"; }
                m += " @" + std::to_string(op->inv) + "-" + std::to_string(op->resp) + (op->note.empty() ? "" : " " + op->note) + "]";
            }
            return m;
        }
    }
    return "";
}

} // namespace vf
