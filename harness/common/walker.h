// Read-only structural walker: an independent implementation of "what is in the tree", used as the
// oracle for C08 (well-formedness), C12 (border version snapshots), C20 (shape / footprint) and to
// resolve abstract positions for scenario generators.  Uses public accessors only.
#pragma once
#include <array>
#include <cstring>
#include <map>
#include <set>
#include <sstream>
#include <string>
#include <vector>

#include "kvs.h"

namespace vf {

using yakushima::base_node;
using yakushima::border_node;
using yakushima::interior_node;
using yakushima::key_length_type;
using yakushima::key_slice_type;
using yakushima::node_version64;
using yakushima::node_version64_body;

// reference order on (slice,len) tuples: bytewise, prefix first, 8 < "continues"(>8)
inline int ref_tuple_cmp(key_slice_type sa, unsigned la, key_slice_type sb, unsigned lb) {
    unsigned ea = la > 8 ? 8 : la;
    unsigned eb = lb > 8 ? 8 : lb;
    int c = std::memcmp(&sa, &sb, ea < eb ? ea : eb);
    if (c != 0) { return c < 0 ? -1 : 1; }
    if (ea != eb) { return ea < eb ? -1 : 1; }
    unsigned ca = la > 8 ? 9 : la;
    unsigned cb = lb > 8 ? 9 : lb;
    if (ca != cb) { return ca < cb ? -1 : 1; }
    return 0;
}

struct Bound {
    bool has{false};
    key_slice_type s{0};
    unsigned l{0};
};

struct WalkOut {
    bool ok{true};
    std::string err;
    struct Entry {
        std::string key;
        yakushima::value* v;
        border_node* bn;
        std::size_t level;
        std::size_t layer;
        base_node* layer_root;
    };
    std::vector<Entry> entries;
    std::map<std::string, base_node*> layer_roots; // key prefix of a layer (8 bytes per layer above it) -> its root node
    std::map<node_version64*, node_version64_body> border_versions;
    std::vector<border_node*> borders;
    std::map<border_node*, std::size_t> border_level;
    std::vector<std::array<std::size_t, 2>> shape; // per level: {#nodes, node bytes}
    std::vector<std::size_t> level_used_nodes;     // per level: used bytes of nodes (no values)
    std::size_t n_border{0}, n_interior{0}, n_layers{0}, max_border_in_layer{0};
    bool root_deleted_empty{false};

    void fail(const std::string& m) {
        if (ok) {
            ok = false;
            err = m;
        }
    }
};

class Walker {
public:
    explicit Walker(WalkOut& o) : o_(o) {}

    void walk_tree(yakushima::tree_instance* ti) {
        base_node* root = ti->load_root_ptr();
        if (root == nullptr) {
            o_.fail("tree root is null");
            return;
        }
#ifdef YAKUSHIMA_VERIF
        if (ti->verif_root_locked()) { o_.fail("root lock is held at quiescence"); }
#endif
        walk_layer(root, "", 0, nullptr, 0, true);
    }

private:
    WalkOut& o_;

    static std::string pp(const void* p) {
        std::ostringstream ss;
        ss << p;
        return ss.str();
    }

    void note_level(std::size_t level, std::size_t bytes, std::size_t used) {
        if (o_.shape.size() <= level) {
            o_.shape.resize(level + 1, {0, 0});
            o_.level_used_nodes.resize(level + 1, 0);
        }
        o_.shape[level][0] += 1;
        o_.shape[level][1] += bytes;
        o_.level_used_nodes[level] += used;
    }

    void check_flags(base_node* n, bool may_be_deleted) {
        node_version64_body v = n->get_version();
        if (v.get_locked()) { o_.fail("node " + pp(n) + " left locked"); }
        if (v.get_inserting_deleting()) { o_.fail("node " + pp(n) + " left inserting_deleting"); }
        if (v.get_splitting()) { o_.fail("node " + pp(n) + " left splitting"); }
        if (v.get_deleted() && !may_be_deleted) { o_.fail("reachable node " + pp(n) + " is marked deleted"); }
    }

    void walk_layer(base_node* root, const std::string& prefix, std::size_t level, border_node* parent_border,
                    std::size_t layer, bool is_tree_root) {
        ++o_.n_layers;
        o_.layer_roots[prefix] = root;
        if (!root->get_version_root()) { o_.fail("layer root " + pp(root) + " lacks root flag"); }
        if (root->get_parent() != parent_border) {
            o_.fail("layer root " + pp(root) + " parent != linking border");
        }
        std::vector<border_node*> leaves;
        walk_node(root, Bound{}, Bound{}, prefix, level, layer, leaves, is_tree_root, true, root);
        if (!o_.ok) { return; }
        // leaf chain == in-order leaf list
        for (std::size_t i = 0; i < leaves.size(); ++i) {
            border_node* b = leaves[i];
            border_node* en = i + 1 < leaves.size() ? leaves[i + 1] : nullptr;
            border_node* ep = i > 0 ? leaves[i - 1] : nullptr;
            if (b->get_next() != en) {
                o_.fail("border " + pp(b) + " next=" + pp(b->get_next()) + " expected " + pp(en));
            }
            if (b->get_prev() != ep) {
                o_.fail("border " + pp(b) + " prev=" + pp(b->get_prev()) + " expected " + pp(ep));
            }
        }
        if (leaves.size() > o_.max_border_in_layer) { o_.max_border_in_layer = leaves.size(); }
    }

    void walk_node(base_node* n, Bound lo, Bound hi, const std::string& prefix, std::size_t level,
                   std::size_t layer, std::vector<border_node*>& leaves, bool is_tree_root, bool is_layer_root,
                   base_node* layer_root) {
        if (!o_.ok) { return; }
        if (n == nullptr) {
            o_.fail("null child");
            return;
        }
        if (!is_layer_root && n->get_version_root()) { o_.fail("non-root node " + pp(n) + " has root flag"); }
        if (n->get_version_border()) {
            auto* b = dynamic_cast<border_node*>(n);
            if (b == nullptr) {
                o_.fail("border flag on non-border node");
                return;
            }
            walk_border(b, lo, hi, prefix, level, layer, leaves, is_tree_root && is_layer_root, layer_root);
        } else {
            auto* in = dynamic_cast<interior_node*>(n);
            if (in == nullptr) {
                o_.fail("interior flag on non-interior node");
                return;
            }
            check_flags(n, false);
            ++o_.n_interior;
            std::size_t nk = in->get_n_keys();
            note_level(level, sizeof(interior_node),
                       sizeof(interior_node) - (interior_node::child_length - (nk + 1)) * sizeof(std::uintptr_t));
            if (nk < 1 || nk > yakushima::key_slice_length) {
                o_.fail("interior " + pp(n) + " has n_keys=" + std::to_string(nk));
                return;
            }
            for (std::size_t i = 0; i < nk; ++i) {
                unsigned l = in->get_key_length_at(i);
                if (l == 0) { o_.fail("interior separator of length 0"); }
                if (i > 0 && ref_tuple_cmp(in->get_key_slice_at(i - 1), in->get_key_length_at(i - 1),
                                           in->get_key_slice_at(i), l) >= 0) {
                    o_.fail("interior " + pp(n) + " separators not strictly increasing at " + std::to_string(i));
                }
                if (lo.has && ref_tuple_cmp(in->get_key_slice_at(i), l, lo.s, lo.l) < 0) {
                    o_.fail("interior separator below its lower bound");
                }
                if (hi.has && ref_tuple_cmp(in->get_key_slice_at(i), l, hi.s, hi.l) >= 0) {
                    o_.fail("interior separator not below its upper bound");
                }
            }
            for (std::size_t i = nk + 1; i < interior_node::child_length; ++i) {
                if (in->get_child_at(i) != nullptr) { o_.fail("interior " + pp(n) + " has non-null child beyond n_keys"); }
            }
            for (std::size_t i = 0; i <= nk && o_.ok; ++i) {
                base_node* ch = in->get_child_at(i);
                if (ch == nullptr) {
                    o_.fail("interior " + pp(n) + " null child " + std::to_string(i));
                    return;
                }
                if (ch->get_parent() != n) { o_.fail("child " + pp(ch) + " parent pointer != interior " + pp(n)); }
                Bound clo = lo;
                Bound chi = hi;
                if (i > 0) { clo = Bound{true, in->get_key_slice_at(i - 1), in->get_key_length_at(i - 1)}; }
                if (i < nk) { chi = Bound{true, in->get_key_slice_at(i), in->get_key_length_at(i)}; }
                walk_node(ch, clo, chi, prefix, level + 1, layer, leaves, false, false, layer_root);
            }
        }
    }

    void walk_border(border_node* b, Bound lo, Bound hi, const std::string& prefix, std::size_t level,
                     std::size_t layer, std::vector<border_node*>& leaves, bool is_tree_root_border, base_node* layer_root) {
        ++o_.n_border;
        leaves.push_back(b);
        o_.borders.push_back(b);
        o_.border_level[b] = level;
        std::uint64_t perm = b->get_permutation().get_body();
        std::size_t cnk = perm & 0xfU;
        bool may_del = is_tree_root_border && cnk == 0;
        check_flags(b, may_del);
        if (may_del && b->get_version_deleted()) { o_.root_deleted_empty = true; }
        o_.border_versions[b->get_version_ptr()] = b->get_version();
        note_level(level, sizeof(border_node),
                   sizeof(border_node) - (yakushima::key_slice_length - cnk) * sizeof(yakushima::link_or_value));
        if (cnk > yakushima::key_slice_length) {
            o_.fail("border " + pp(b) + " permutation count " + std::to_string(cnk));
            return;
        }
        if (cnk == 0 && !is_tree_root_border) { o_.fail("reachable empty border " + pp(b) + " that is not the tree root"); }
        std::set<unsigned> seen;
        key_slice_type ps = 0;
        unsigned pl = 0;
        for (std::size_t r = 0; r < cnk && o_.ok; ++r) {
            unsigned idx = (perm >> (4 * (r + 1))) & 0xfU;
            if (idx >= yakushima::key_slice_length || !seen.insert(idx).second) {
                o_.fail("border " + pp(b) + " permutation invalid (slot " + std::to_string(idx) + ")");
                return;
            }
            key_slice_type s = b->get_key_slice_at(idx);
            unsigned l = b->get_key_length_at(idx);
            if (l > 9) { o_.fail("border key length > 9"); }
            if (r > 0 && ref_tuple_cmp(ps, pl, s, l) >= 0) {
                o_.fail("border " + pp(b) + " entries not strictly increasing at rank " + std::to_string(r));
            }
            if (lo.has && ref_tuple_cmp(s, l, lo.s, lo.l) < 0) { o_.fail("border " + pp(b) + " entry below separator bound"); }
            if (hi.has && ref_tuple_cmp(s, l, hi.s, hi.l) >= 0) { o_.fail("border " + pp(b) + " entry not below separator bound"); }
            ps = s;
            pl = l;
            std::string full = prefix;
            full.append(reinterpret_cast<const char*>(&s), l > 8 ? 8 : l);
            yakushima::link_or_value* lv = b->get_lv_at(idx);
            if (l > 8) {
                base_node* nl = lv->get_next_layer();
                if (nl == nullptr) {
                    o_.fail("link entry without next layer in border " + pp(b));
                    return;
                }
                walk_layer(nl, full, level + 1, b, layer + 1, false);
            } else {
                if (lv->get_next_layer() != nullptr) { o_.fail("value entry holds a next-layer pointer"); }
                o_.entries.push_back({full, lv->get_value(), b, level, layer, layer_root});
            }
        }
    }
};

inline WalkOut walk(yakushima::tree_instance* ti) {
    WalkOut o;
    Walker w(o);
    w.walk_tree(ti);
    return o;
}

} // namespace vf
