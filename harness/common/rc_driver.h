// Thin wrapper around rapidcheck: generates byte strings, runs a property on each, shrinks failures.
// Kept in its own translation unit so that the (slow to compile) rapidcheck headers are compiled once
// and never together with the yakushima headers.
#pragma once
#include <cstddef>
#include <cstdint>
#include <functional>
#include <string>
#include <vector>

namespace vf {

struct RcOutcome {
    bool failed{false};
    std::vector<std::uint8_t> minimal; // last failing input seen (= shrunk counterexample)
    std::size_t generated{0};          // cases generated (not counting shrink re-executions)
    std::size_t shrink_steps{0};       // executions spent shrinking
};

// prop returns true when the case passes.  `shrinking` tells the property that this execution is a
// shrink candidate (statistics must not count it).
using RcProp = std::function<bool(const std::vector<std::uint8_t>&, bool shrinking)>;

RcOutcome rc_drive(std::uint64_t seed, std::size_t cases, std::size_t max_len, const RcProp& prop,
                   std::size_t max_shrink_execs = 20000);

} // namespace vf
