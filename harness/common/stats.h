// Per-process statistics for one property run; dumped as JSON for the driver to merge into
// /verif/evidence/<id>.json.  Counts are measured, never derived.
#pragma once
#include <cstdint>
#include <cstdio>
#include <map>
#include <string>
#include <unordered_set>
#include <vector>

namespace vf {

inline std::string json_escape(const std::string& s) {
    std::string o;
    o.reserve(s.size() + 8);
    for (unsigned char c : s) {
        switch (c) {
            case '"': o += "\\\""; break;
            case '\\': o += "\\\\"; break;
            case '\n': o += "\\n"; break;
            case '\t': o += "\\t"; break;
            case '\r': o += "\\r"; break;
            default:
                if (c < 0x20 || c >= 0x7f) {
                    char b[8];
                    std::snprintf(b, sizeof b, "\\u%04x", c);
                    o += b;
                } else {
                    o.push_back(static_cast<char>(c));
                }
        }
    }
    return o;
}

inline std::uint64_t fnv1a(const void* p, std::size_t n, std::uint64_t h = 1469598103934665603ULL) {
    const auto* b = static_cast<const unsigned char*>(p);
    for (std::size_t i = 0; i < n; ++i) {
        h ^= b[i];
        h *= 1099511628211ULL;
    }
    return h;
}
inline std::uint64_t fnv1a(const std::string& s, std::uint64_t h = 1469598103934665603ULL) {
    return fnv1a(s.data(), s.size(), h);
}

struct Stats {
    std::string property;
    std::uint64_t evaluations{0};      // cases (or judged sub-cases) executed
    std::uint64_t checks{0};           // individual oracle comparisons made
    std::uint64_t inconclusive{0};
    std::uint64_t excluded_by_construction{0};
    std::unordered_set<std::uint64_t> nontrivial_fp; // fingerprints of distinct non-trivial cases
    std::map<std::string, std::uint64_t> classes;    // class histogram
    std::map<std::string, std::vector<std::string>> samples; // first few cases per class
    std::size_t samples_per_class{2};
    std::map<std::string, std::uint64_t> known; // known-finding signature -> hits

    void cls(const std::string& c, std::uint64_t n = 1) { classes[c] += n; }
    bool want_sample(const std::string& c) {
        auto it = samples.find(c);
        return it == samples.end() || it->second.size() < samples_per_class;
    }
    void sample(const std::string& c, const std::string& text) {
        auto& v = samples[c];
        if (v.size() < samples_per_class) { v.push_back(text); }
    }
    void nontrivial(std::uint64_t fp) { nontrivial_fp.insert(fp); }

    // JSON + binary fingerprint dump
    bool dump(const std::string& json_path, const std::string& fp_path) const {
        FILE* f = std::fopen(json_path.c_str(), "w");
        if (f == nullptr) { return false; }
        std::fprintf(f, "{\"property\":\"%s\",\"evaluations\":%llu,\"checks\":%llu,\"inconclusive\":%llu,"
                        "\"excluded_by_construction\":%llu,\"distinct_nontrivial_local\":%zu,",
                     property.c_str(), (unsigned long long) evaluations, (unsigned long long) checks,
                     (unsigned long long) inconclusive, (unsigned long long) excluded_by_construction,
                     nontrivial_fp.size());
        std::fprintf(f, "\"classes\":{");
        bool first = true;
        for (auto& [k, v] : classes) {
            std::fprintf(f, "%s\"%s\":%llu", first ? "" : ",", json_escape(k).c_str(), (unsigned long long) v);
            first = false;
        }
        std::fprintf(f, "},\"known\":{");
        first = true;
        for (auto& [k, v] : known) {
            std::fprintf(f, "%s\"%s\":%llu", first ? "" : ",", json_escape(k).c_str(), (unsigned long long) v);
            first = false;
        }
        std::fprintf(f, "},\"samples\":{");
        first = true;
        for (auto& [k, v] : samples) {
            std::fprintf(f, "%s\"%s\":[", first ? "" : ",", json_escape(k).c_str());
            first = false;
            for (std::size_t i = 0; i < v.size(); ++i) {
                std::fprintf(f, "%s\"%s\"", i ? "," : "", json_escape(v[i]).c_str());
            }
            std::fprintf(f, "]");
        }
        std::fprintf(f, "}}\n");
        std::fclose(f);
        if (!fp_path.empty()) {
            FILE* g = std::fopen(fp_path.c_str(), "wb");
            if (g == nullptr) { return false; }
            for (auto h : nontrivial_fp) { std::fwrite(&h, sizeof h, 1, g); }
            std::fclose(g);
        }
        return true;
    }
};

} // namespace vf
