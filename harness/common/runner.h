// Generic front-end shared by every engine binary.
//
//   <bin> --prop C02 --mode gen    --seed N --cases M --maxlen L --shard i --out DIR [--known a,b] [--tier T]
//   <bin> --prop C02 --mode replay --file case.hex [--verbose]
//
// gen:    rapidcheck generates byte strings, the engine's run_case decodes and judges each one; the
//         first failure whose signature is not in --known is shrunk by rapidcheck and written to
//         DIR/fail.<shard>.hex (+ .txt).  The case being executed is always in DIR/cur.<shard>.bin so
//         that a crash (sanitizer abort, SIGSEGV) leaves its input behind for the driver.
// replay: runs one case, prints "PASS" or "FAIL signature=<s> msg=<m>", exit status 0 / 1.
#pragma once
#include <chrono>
#include <cstdint>
#include <cstdio>
#include <cstdlib>
#include <cstring>
#include <fcntl.h>
#include <fstream>
#include <set>
#include <sstream>
#include <string>
#include <unistd.h>
#include <vector>

#include "chooser.h"
#include "rc_driver.h"
#include "stats.h"

namespace vf {

struct CaseResult {
    bool pass{true};
    bool inconclusive{false};
    std::string signature; // stable short name of the failure class
    std::string message;   // human readable, includes the decoded case
};

struct RunnerArgs {
    std::string prop;
    std::string mode{"gen"};
    std::string tier{"quick"};
    std::uint64_t seed{1};
    std::size_t cases{1000};
    std::size_t maxlen{512};
    int shard{0};
    std::string out{"."};
    std::string file;
    std::set<std::string> known;
    bool verbose{false};
    std::string extra; // engine specific
};

inline RunnerArgs parse_args(int argc, char** argv) {
    RunnerArgs a;
    for (int i = 1; i < argc; ++i) {
        std::string k = argv[i];
        auto next = [&]() -> std::string { return i + 1 < argc ? std::string(argv[++i]) : std::string(); };
        if (k == "--prop") {
            a.prop = next();
        } else if (k == "--mode") {
            a.mode = next();
        } else if (k == "--tier") {
            a.tier = next();
        } else if (k == "--seed") {
            a.seed = std::strtoull(next().c_str(), nullptr, 10);
        } else if (k == "--cases") {
            a.cases = std::strtoull(next().c_str(), nullptr, 10);
        } else if (k == "--maxlen") {
            a.maxlen = std::strtoull(next().c_str(), nullptr, 10);
        } else if (k == "--shard") {
            a.shard = std::atoi(next().c_str());
        } else if (k == "--out") {
            a.out = next();
        } else if (k == "--file") {
            a.file = next();
        } else if (k == "--extra") {
            a.extra = next();
        } else if (k == "--verbose") {
            a.verbose = true;
        } else if (k == "--known") {
            std::stringstream ss(next());
            std::string t;
            while (std::getline(ss, t, ',')) {
                if (!t.empty()) { a.known.insert(t); }
            }
        }
    }
    return a;
}

// Version of the byte -> case decoders.  Stored reproducers are byte strings, so a decoder that gains new shapes must keep decoding the
// old files the old way: a case file whose header carries no "decoder=N" tag was written for version 1; generated cases and bare hex
// files (the driver's minimisation candidates) use the current version.
constexpr int kDecoderCurrent = 2;
inline int g_decoder = kDecoderCurrent;

inline std::vector<std::uint8_t> read_case_file(const std::string& path) {
    std::ifstream f(path);
    std::string line;
    std::string hexs;
    bool header = false;
    int tagged = 0;
    while (std::getline(f, line)) {
        if (line.empty()) { continue; }
        if (line[0] == '#') {
            header = true;
            auto at = line.find("decoder=");
            if (at != std::string::npos) { tagged = std::atoi(line.c_str() + at + 8); }
            continue;
        }
        hexs += line;
    }
    g_decoder = tagged != 0 ? tagged : (header ? 1 : kDecoderCurrent);
    return unhex(hexs);
}

class CurCase {
public:
    void open(const std::string& path) { fd_ = ::open(path.c_str(), O_CREAT | O_RDWR | O_TRUNC, 0644); }
    void set(const std::vector<std::uint8_t>& b) {
        if (fd_ < 0) { return; }
        std::uint64_t n = b.size();
        buf_.resize(8 + b.size());
        std::memcpy(buf_.data(), &n, 8);
        if (!b.empty()) { std::memcpy(buf_.data() + 8, b.data(), b.size()); }
        (void) !::pwrite(fd_, buf_.data(), buf_.size(), 0);
    }

private:
    int fd_{-1};
    std::vector<std::uint8_t> buf_;
};

// Engine callback: decode + execute + judge one case.
using RunCaseFn = CaseResult (*)(const RunnerArgs&, const std::vector<std::uint8_t>&, bool record, Stats&);

inline int runner_main(const RunnerArgs& a, RunCaseFn run_case) {
    Stats st;
    st.property = a.prop;
    if (a.mode == "replay") {
        auto bytes = read_case_file(a.file);
        CaseResult r = run_case(a, bytes, true, st);
        if (r.pass) {
            std::printf("PASS%s\n", r.inconclusive ? " (inconclusive)" : "");
            if (a.verbose) { std::printf("%s\n", r.message.c_str()); }
            return 0;
        }
        std::printf("FAIL signature=%s msg=%s\n", r.signature.c_str(), r.message.c_str());
        return 1;
    }
    const std::string tag = std::to_string(a.shard);
    CurCase cur;
    cur.open(a.out + "/cur." + tag + ".bin");
    auto t0 = std::chrono::steady_clock::now();
    std::string fail_sig;
    std::string fail_msg;
    std::map<std::string, std::vector<std::uint8_t>> known_repro;
    std::map<std::string, std::string> known_msg;
    auto prop = [&](const std::vector<std::uint8_t>& bytes, bool shrinking) -> bool {
        cur.set(bytes);
        CaseResult r = run_case(a, bytes, !shrinking, st);
        if (!shrinking) {
            ++st.evaluations;
            if (r.inconclusive) { ++st.inconclusive; }
        }
        if (r.pass) { return true; }
        if (a.known.count(r.signature) != 0) {
            // an open known finding: record, keep searching behind it
            if (!shrinking) {
                ++st.known[r.signature];
                auto it = known_repro.find(r.signature);
                if (it == known_repro.end() || bytes.size() < it->second.size()) {
                    known_repro[r.signature] = bytes;
                    known_msg[r.signature] = r.message;
                }
            }
            return true;
        }
        if (!shrinking) {
            fail_sig = r.signature;
        } else if (r.signature != fail_sig) {
            // while shrinking only accept candidates that fail the same way
            return true;
        }
        fail_msg = r.message;
        return false;
    };
    RcOutcome oc = rc_drive(a.seed, a.cases, a.maxlen, prop, !a.extra.empty() ? 300 : (a.prop == "C02" || a.prop == "C03" ? 6000 : 2500));
    double wall = std::chrono::duration<double>(std::chrono::steady_clock::now() - t0).count();
    st.classes["_wall_ms"] = static_cast<std::uint64_t>(wall * 1000);
    st.classes["_shrink_execs"] = oc.shrink_steps;
    st.dump(a.out + "/stats." + tag + ".json", a.out + "/fp." + tag + ".bin");
    for (auto& [sig, bytes] : known_repro) {
        std::ofstream f(a.out + "/known." + tag + "." + sig + ".hex");
        f << "# property=" << a.prop << " signature=" << sig << " decoder=" << kDecoderCurrent << "\n";
        std::string m = known_msg[sig];
        for (auto& ch : m) {
            if (ch == '\n') { ch = ' '; }
        }
        f << "# " << m.substr(0, 2000) << "\n" << hex(bytes) << "\n";
    }
    if (oc.failed) {
        std::ofstream f(a.out + "/fail." + tag + ".hex");
        f << "# property=" << a.prop << " signature=" << fail_sig << " seed=" << a.seed << " shard=" << a.shard << " decoder=" << kDecoderCurrent << "\n";
        std::stringstream ss(fail_msg);
        std::string line;
        while (std::getline(ss, line)) { f << "# " << line << "\n"; }
        f << hex(oc.minimal) << "\n";
        std::printf("FAIL signature=%s file=%s/fail.%s.hex\n", fail_sig.c_str(), a.out.c_str(), tag.c_str());
        return 1;
    }
    std::printf("OK shard=%s cases=%zu wall=%.1fs\n", tag.c_str(), oc.generated, wall);
    return 0;
}

} // namespace vf
