// Generic front-end shared by every engine binary.
//
//   <bin> --prop C02 --mode gen    --seed N --cases M --maxlen L --shard i --out DIR [--known a,b] [--tier T]
//   <bin> --prop C02 --mode replay --file case.hex [--verbose]
//
// gen:    rapidcheck generates byte strings, the engine's run_case decodes and judges each one; the
//         first failure whose signature is not in --known is shrunk by rapidcheck and written to
//         DIR/fail.<shard>.hex (+ .txt).  The case being executed is always in DIR/cur.<shard>.bin so
//         that a crash (sanitizer abort, SIGSEGV) leaves its input behind for the driver.
// replay: runs one case, prints "PASS" or "FAIL signature=<s> msg=<m>", exit status 0 / 1.
#pragma once
#include <chrono>
#include <cstdint>
#include <cstdio>
#include <cstdlib>
#include <thread>
#include <mutex>
#include <atomic>
#include <cstring>
#include <fcntl.h>
#include <fstream>
#include <set>
#include <sstream>
#include <string>
#include <unistd.h>
#include <vector>

#include "chooser.h"
#include "rc_driver.h"
#include "stats.h"

namespace vf {

struct CaseResult {
    bool pass{true};
    bool inconclusive{false};
    std::string signature; // stable short name of the failure class
    std::string message;   // human readable, includes the decoded case
};

struct RunnerArgs {
    std::string prop;
    std::string mode{"gen"};
    std::string tier{"quick"};
    std::uint64_t seed{1};
    std::size_t cases{1000};
    std::size_t maxlen{512};
    int shard{0};
    std::string out{"."};
    std::string file;
    std::set<std::string> known;
    bool verbose{false};
    std::string extra; // engine specific
};

inline RunnerArgs parse_args(int argc, char** argv) {
    RunnerArgs a;
    for (int i = 1; i < argc; ++i) {
        std::string k = argv[i];
        auto next = [&]() -> std::string { return i + 1 < argc ? std::string(argv[++i]) : std::string(); };
        if (k == "--prop") {
            a.prop = next();
        } else if (k == "--mode") {
            a.mode = next();
        } else if (k == "--tier") {
            a.tier = next();
        } else if (k == "--seed") {
            a.seed = std::strtoull(next().c_str(), nullptr, 10);
        } else if (k == "--cases") {
            a.cases = std::strtoull(next().c_str(), nullptr, 10);
        } else if (k == "--maxlen") {
            a.maxlen = std::strtoull(next().c_str(), nullptr, 10);
        } else if (k == "--shard") {
            a.shard = std::atoi(next().c_str());
        } else if (k == "--out") {
            a.out = next();
        } else if (k == "--file") {
            a.file = next();
        } else if (k == "--extra") {
            a.extra = next();
        } else if (k == "--verbose") {
            a.verbose = true;
        } else if (k == "--known") {
            std::stringstream ss(next());
            std::string t;
            while (std::getline(ss, t, ',')) {
                if (!t.empty()) { a.known.insert(t); }
            }
        }
    }
    return a;
}

// Version of the byte -> case decoders.  Stored reproducers are byte strings, so a decoder that gains new shapes must keep decoding the
// old files the old way: a case file whose header carries no "decoder=N" tag was written for version 1; generated cases and bare hex
// files (the driver's minimisation candidates) use the current version.
constexpr int kDecoderCurrent = 2;
inline int g_decoder = kDecoderCurrent;

inline std::vector<std::uint8_t> read_case_file(const std::string& path) {
    std::ifstream f(path);
    std::string line;
    std::string hexs;
    bool header = false;
    int tagged = 0;
    while (std::getline(f, line)) {
        if (line.empty()) { continue; }
        if (line[0] == '#') {
            header = true;
            auto at = line.find("decoder=");
            if (at != std::string::npos) { tagged = std::atoi(line.c_str() + at + 8); }
            continue;
        }
        hexs += line;
    }
    g_decoder = tagged != 0 ? tagged : (header ? 1 : kDecoderCurrent);
    return unhex(hexs);
}

// ---- watchdog: the one wall-clock signal of the framework.  A case (one generated program / one scheduled run) normally takes
// milliseconds.  A case that has not returned after kCaseWallLimit seconds is in an endless loop the step counters cannot see (a retry
// loop without any yield hook, e.g. an enter() that is refused for ever).  While shrinking, the best failing candidate found so far is
// reported instead (shrinking simply stops); otherwise the case is reported as `case_hang` and has to repeat that 3x in fresh processes
// before the driver prints it.  heartbeat() restarts the clock (called at the start of every execution inside a case).
inline std::atomic<std::uint64_t> g_case_started_ms{0};
inline std::uint64_t now_ms() {
    return static_cast<std::uint64_t>(std::chrono::duration_cast<std::chrono::milliseconds>(std::chrono::steady_clock::now().time_since_epoch()).count());
}
inline void heartbeat() { g_case_started_ms.store(now_ms(), std::memory_order_relaxed); }
inline void case_done() { g_case_started_ms.store(0, std::memory_order_relaxed); }
struct BestFail {
    std::mutex mu;
    bool have{false};
    std::string sig, msg, prop, path;
    std::vector<std::uint8_t> bytes;
    std::uint64_t seed{0};
    int shard{0};
};
inline BestFail g_best_fail;
inline void start_watchdog(bool replay_mode) {
    std::uint64_t limit_s = 150;
    if (const char* e = std::getenv("VF_CASE_WALL_LIMIT_S")) { limit_s = std::strtoull(e, nullptr, 10); }
    std::thread([limit_s, replay_mode] {
        for (;;) {
            std::this_thread::sleep_for(std::chrono::milliseconds(500));
            std::uint64_t t = g_case_started_ms.load(std::memory_order_relaxed);
            if (t == 0 || now_ms() - t < limit_s * 1000) { continue; }
            std::unique_lock<std::mutex> lk(g_best_fail.mu);
            if (!replay_mode && g_best_fail.have) {
                FILE* f = std::fopen(g_best_fail.path.c_str(), "w");
                if (f != nullptr) {
                    std::fprintf(f, "# property=%s signature=%s seed=%llu shard=%d decoder=%d (shrinking stopped: a smaller candidate did not return within %llu s)\n",
                                 g_best_fail.prop.c_str(), g_best_fail.sig.c_str(), static_cast<unsigned long long>(g_best_fail.seed), g_best_fail.shard, 2,
                                 static_cast<unsigned long long>(limit_s));
                    std::string m = g_best_fail.msg;
                    std::size_t pos = 0;
                    while (pos < m.size()) {
                        std::size_t e2 = m.find('\n', pos);
                        if (e2 == std::string::npos) { e2 = m.size(); }
                        std::fprintf(f, "# %s\n", m.substr(pos, e2 - pos).c_str());
                        pos = e2 + 1;
                    }
                    std::fprintf(f, "%s\n", hex(g_best_fail.bytes).c_str());
                    std::fclose(f);
                }
                std::printf("FAIL signature=%s file=%s\n", g_best_fail.sig.c_str(), g_best_fail.path.c_str());
                std::fflush(stdout);
                _exit(1);
            }
            std::printf("FAIL signature=case_hang msg=the case did not return within %llu s of wall-clock time (cases normally take milliseconds): an endless loop that passes no yield point\n",
                        static_cast<unsigned long long>(limit_s));
            std::fflush(stdout);
            _exit(replay_mode ? 1 : 4);
        }
    }).detach();
}

class CurCase {
public:
    void open(const std::string& path) { fd_ = ::open(path.c_str(), O_CREAT | O_RDWR | O_TRUNC, 0644); }
    void set(const std::vector<std::uint8_t>& b) {
        if (fd_ < 0) { return; }
        std::uint64_t n = b.size();
        buf_.resize(8 + b.size());
        std::memcpy(buf_.data(), &n, 8);
        if (!b.empty()) { std::memcpy(buf_.data() + 8, b.data(), b.size()); }
        (void) !::pwrite(fd_, buf_.data(), buf_.size(), 0);
    }

private:
    int fd_{-1};
    std::vector<std::uint8_t> buf_;
};

// Engine callback: decode + execute + judge one case.
using RunCaseFn = CaseResult (*)(const RunnerArgs&, const std::vector<std::uint8_t>&, bool record, Stats&);

inline int runner_main(const RunnerArgs& a, RunCaseFn run_case) {
    Stats st;
    st.property = a.prop;
    start_watchdog(a.mode == "replay");
    if (a.mode == "replay") {
        auto bytes = read_case_file(a.file);
        heartbeat();
        CaseResult r = run_case(a, bytes, true, st);
        case_done();
        if (r.pass) {
            std::printf("PASS%s\n", r.inconclusive ? " (inconclusive)" : "");
            if (a.verbose) { std::printf("%s\n", r.message.c_str()); }
            return 0;
        }
        std::printf("FAIL signature=%s msg=%s\n", r.signature.c_str(), r.message.c_str());
        return 1;
    }
    const std::string tag = std::to_string(a.shard);
    CurCase cur;
    cur.open(a.out + "/cur." + tag + ".bin");
    auto t0 = std::chrono::steady_clock::now();
    std::string fail_sig;
    std::string fail_msg;
    std::map<std::string, std::vector<std::uint8_t>> known_repro;
    std::map<std::string, std::string> known_msg;
    auto prop = [&](const std::vector<std::uint8_t>& bytes, bool shrinking) -> bool {
        cur.set(bytes);
        heartbeat();
        CaseResult r = run_case(a, bytes, !shrinking, st);
        case_done();
        if (!shrinking) {
            ++st.evaluations;
            if (r.inconclusive) { ++st.inconclusive; }
        }
        if (r.pass) { return true; }
        if (a.known.count(r.signature) != 0) {
            // an open known finding: record, keep searching behind it
            if (!shrinking) {
                ++st.known[r.signature];
                auto it = known_repro.find(r.signature);
                if (it == known_repro.end() || bytes.size() < it->second.size()) {
                    known_repro[r.signature] = bytes;
                    known_msg[r.signature] = r.message;
                }
            }
            return true;
        }
        if (!shrinking) {
            fail_sig = r.signature;
        } else if (r.signature != fail_sig) {
            // while shrinking only accept candidates that fail the same way
            return true;
        }
        fail_msg = r.message;
        {
            std::unique_lock<std::mutex> lk(g_best_fail.mu);
            g_best_fail.have = true;
            g_best_fail.sig = fail_sig;
            g_best_fail.msg = fail_msg;
            g_best_fail.bytes = bytes;
            g_best_fail.prop = a.prop;
            g_best_fail.seed = a.seed;
            g_best_fail.shard = static_cast<int>(a.shard);
            g_best_fail.path = a.out + "/fail." + tag + ".hex";
        }
        return false;
    };
    RcOutcome oc = rc_drive(a.seed, a.cases, a.maxlen, prop, !a.extra.empty() ? 300 : (a.prop == "C02" || a.prop == "C03" ? 6000 : 2500));
    double wall = std::chrono::duration<double>(std::chrono::steady_clock::now() - t0).count();
    st.classes["_wall_ms"] = static_cast<std::uint64_t>(wall * 1000);
    st.classes["_shrink_execs"] = oc.shrink_steps;
    st.dump(a.out + "/stats." + tag + ".json", a.out + "/fp." + tag + ".bin");
    for (auto& [sig, bytes] : known_repro) {
        std::ofstream f(a.out + "/known." + tag + "." + sig + ".hex");
        f << "# property=" << a.prop << " signature=" << sig << " decoder=" << kDecoderCurrent << "\n";
        std::string m = known_msg[sig];
        for (auto& ch : m) {
            if (ch == '\n') { ch = ' '; }
        }
        f << "# " << m.substr(0, 2000) << "\n" << hex(bytes) << "\n";
    }
    if (oc.failed) {
        std::ofstream f(a.out + "/fail." + tag + ".hex");
        f << "# property=" << a.prop << " signature=" << fail_sig << " seed=" << a.seed << " shard=" << a.shard << " decoder=" << kDecoderCurrent << "\n";
        std::stringstream ss(fail_msg);
        std::string line;
        while (std::getline(ss, line)) { f << "# " << line << "\n"; }
        f << hex(oc.minimal) << "\n";
        std::printf("FAIL signature=%s file=%s/fail.%s.hex\n", fail_sig.c_str(), a.out.c_str(), tag.c_str());
        return 1;
    }
    std::printf("OK shard=%s cases=%zu wall=%.1fs\n", tag.c_str(), oc.generated, wall);
    return 0;
}

} // namespace vf
