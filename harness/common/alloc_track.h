// Replacement of the global operator new / delete (all overloads) for the memory oracles (C07, C11, C16).
//
//  * live-block table: address -> (size, alignment, generation)
//  * sized / aligned delete is checked against the allocation (replaces ASan's new-delete-type-mismatch check)
//  * quarantine mode: delete poisons the block and keeps it (no reuse) until flush, so that "was this pointer freed while a
//    session still held it" is a deterministic question the harness can ask, not a sanitizer abort
//
// Include in exactly one translation unit of a binary with VF_ALLOC_TRACK_IMPL defined.
#pragma once
#include <atomic>
#include <cstddef>
#include <cstdint>
#include <cstdio>
#include <cstdlib>
#include <cstring>
#include <new>

namespace track {

struct Block {
    std::uintptr_t addr; // 0 = empty, 1 = tombstone
    std::size_t size;
    std::size_t align;
    std::uint32_t gen;
    bool quarantined;
#ifdef VF_TRACK_BT
    void* bt[10];
#endif
};

struct Snapshot {
    std::uint64_t live_blocks;
    std::uint64_t live_bytes;
};

void set_generation(std::uint32_t g);
Snapshot snapshot();                      // live (not quarantined) blocks
std::uint64_t live_in_generation(std::uint32_t g, std::uint64_t* bytes);
void quarantine(bool on);                 // delete keeps + poisons blocks while on
bool is_quarantined(const void* p);       // p points into a block that was deleted while quarantine was on
std::size_t flush_quarantine();           // really free quarantined blocks; returns how many
std::uint64_t errors();                   // size / alignment mismatches and unknown-pointer deletes seen so far
const char* last_error();
void enable(bool on);                     // tracking on/off (off: plain malloc/free, nothing recorded)
void describe_generation(std::uint32_t g, char* buf, std::size_t n); // a few leaked blocks, for messages

} // namespace track

#ifdef VF_ALLOC_TRACK_IMPL
namespace track {
namespace {
constexpr std::size_t kCap = 1U << 21U; // slots (power of two)
Block* g_tab = nullptr;
std::atomic_flag g_lock = ATOMIC_FLAG_INIT;
std::atomic<bool> g_enabled{false};
bool g_quarantine = false;
std::uint32_t g_gen = 0;
std::uint64_t g_live_blocks = 0;
std::uint64_t g_live_bytes = 0;
std::uint64_t g_errors = 0;
char g_last_error[256] = "";
std::size_t g_used = 0;
constexpr std::size_t kQCap = 1U << 16U;
struct QEnt {
    std::uintptr_t addr;
    std::size_t size;
};
QEnt g_q[kQCap];
std::size_t g_qn = 0;

struct Guard {
    Guard() {
        while (g_lock.test_and_set(std::memory_order_acquire)) {}
    }
    ~Guard() { g_lock.clear(std::memory_order_release); }
};
inline std::size_t h(std::uintptr_t a) { return static_cast<std::size_t>((a >> 4U) * 0x9E3779B97F4A7C15ULL) & (kCap - 1); }
#ifdef VF_TRACK_BT
}
}
#include <execinfo.h>
namespace track {
namespace {
thread_local bool g_in_bt = false;
void track_capture_bt(void** out) {
    for (int i = 0; i < 10; ++i) { out[i] = nullptr; }
    if (g_in_bt) { return; }
    g_in_bt = true;
    void* tmp[14];
    int n = backtrace(tmp, 14);
    for (int i = 0; i < 10 && i + 3 < n; ++i) { out[i] = tmp[i + 3]; }
    g_in_bt = false;
}
#endif
void ensure() {
    if (g_tab == nullptr) { g_tab = static_cast<Block*>(std::calloc(kCap, sizeof(Block))); }
}
Block* find(std::uintptr_t a) {
    std::size_t i = h(a);
    for (std::size_t n = 0; n < kCap; ++n, i = (i + 1) & (kCap - 1)) {
        if (g_tab[i].addr == a) { return &g_tab[i]; }
        if (g_tab[i].addr == 0) { return nullptr; }
    }
    return nullptr;
}
void insert(std::uintptr_t a, std::size_t size, std::size_t align) {
    std::size_t i = h(a);
    for (std::size_t n = 0; n < kCap; ++n, i = (i + 1) & (kCap - 1)) {
        if (g_tab[i].addr == 0 || g_tab[i].addr == 1) {
            if (g_tab[i].addr == 0) { ++g_used; }
            g_tab[i] = Block{a, size, align, g_gen, false};
#ifdef VF_TRACK_BT
            track_capture_bt(g_tab[i].bt);
#endif
            return;
        }
    }
    std::fprintf(stderr, "alloc_track: table full\n");
    std::abort();
}
void note_error(const char* what, const void* p, std::size_t a, std::size_t b) {
    ++g_errors;
    std::snprintf(g_last_error, sizeof g_last_error, "%s (ptr=%p, %zu vs %zu)", what, p, a, b);
}

void* do_alloc(std::size_t size, std::size_t align) {
    void* p = nullptr;
    if (align <= alignof(std::max_align_t)) {
        p = std::malloc(size == 0 ? 1 : size);
    } else {
        std::size_t sz = (size + align - 1) / align * align;
        p = std::aligned_alloc(align, sz == 0 ? align : sz);
    }
    if (p == nullptr) { throw std::bad_alloc(); }
    if (g_enabled.load(std::memory_order_relaxed)) {
        Guard g;
        ensure();
        insert(reinterpret_cast<std::uintptr_t>(p), size, align);
        ++g_live_blocks;
        g_live_bytes += size;
    }
    return p;
}
// size / align: 0 = not given by this overload
void do_free(void* p, std::size_t size, std::size_t align) {
    if (p == nullptr) { return; }
    bool really_free = true;
    if (g_tab != nullptr) {
        Guard g;
        Block* b = find(reinterpret_cast<std::uintptr_t>(p));
        if (b != nullptr) {
            if (b->quarantined) {
                note_error("double delete of a quarantined block", p, 0, 0);
                return;
            }
            if (size != 0 && size != b->size) { note_error("sized delete with a size different from the allocation", p, size, b->size); }
            if (align != 0 && b->align != align && !(b->align <= alignof(std::max_align_t) && align <= alignof(std::max_align_t))) {
                note_error("aligned delete with an alignment different from the allocation", p, align, b->align);
            }
            if (align == 0 && b->align > alignof(std::max_align_t)) { note_error("plain delete of an over-aligned allocation", p, 0, b->align); }
            --g_live_blocks;
            g_live_bytes -= b->size;
            if (g_quarantine && g_qn < kQCap) {
                b->quarantined = true;
                g_q[g_qn++] = QEnt{b->addr, b->size};
                std::memset(p, 0xDD, b->size);
                really_free = false;
            } else {
                b->addr = 1; // tombstone
            }
        }
    }
    if (really_free) { std::free(p); }
}
} // namespace

void set_generation(std::uint32_t g) {
    Guard gd;
    g_gen = g;
}
Snapshot snapshot() {
    Guard g;
    return Snapshot{g_live_blocks, g_live_bytes};
}
std::uint64_t live_in_generation(std::uint32_t gen, std::uint64_t* bytes) {
    Guard g;
    std::uint64_t n = 0;
    std::uint64_t b = 0;
    if (g_tab != nullptr) {
        for (std::size_t i = 0; i < kCap; ++i) {
            if (g_tab[i].addr > 1 && !g_tab[i].quarantined && g_tab[i].gen == gen) {
                ++n;
                b += g_tab[i].size;
            }
        }
    }
    if (bytes != nullptr) { *bytes = b; }
    return n;
}
void describe_generation(std::uint32_t gen, char* buf, std::size_t n) {
    Guard g;
    std::size_t off = 0;
    int shown = 0;
    buf[0] = 0;
    if (g_tab == nullptr) { return; }
    for (std::size_t i = 0; i < kCap && shown < 6 && off + 40 < n; ++i) {
        if (g_tab[i].addr > 1 && !g_tab[i].quarantined && g_tab[i].gen == gen) {
            off += static_cast<std::size_t>(std::snprintf(buf + off, n - off, "[%zuB align %zu] ", g_tab[i].size, g_tab[i].align));
#ifdef VF_TRACK_BT
            backtrace_symbols_fd(g_tab[i].bt, 10, 2);
#endif
            ++shown;
        }
    }
}
void quarantine(bool on) {
    Guard g;
    g_quarantine = on;
}
bool is_quarantined(const void* p) {
    Guard g;
    auto a = reinterpret_cast<std::uintptr_t>(p);
    for (std::size_t i = 0; i < g_qn; ++i) {
        if (a >= g_q[i].addr && a < g_q[i].addr + (g_q[i].size == 0 ? 1 : g_q[i].size)) { return true; }
    }
    return false;
}
std::size_t flush_quarantine() {
    std::size_t n = 0;
    for (;;) {
        void* p = nullptr;
        {
            Guard g;
            if (g_qn == 0) { return n; }
            QEnt e = g_q[--g_qn];
            Block* b = find(e.addr);
            if (b != nullptr) {
                b->addr = 1;
                b->quarantined = false;
            }
            p = reinterpret_cast<void*>(e.addr);
        }
        std::free(p);
        ++n;
    }
}
std::uint64_t errors() {
    Guard g;
    return g_errors;
}
const char* last_error() { return g_last_error; }
void enable(bool on) { g_enabled.store(on); }
} // namespace track

void* operator new(std::size_t n) { return track::do_alloc(n, alignof(std::max_align_t)); }
void* operator new[](std::size_t n) { return track::do_alloc(n, alignof(std::max_align_t)); }
void* operator new(std::size_t n, std::align_val_t a) { return track::do_alloc(n, static_cast<std::size_t>(a)); }
void* operator new[](std::size_t n, std::align_val_t a) { return track::do_alloc(n, static_cast<std::size_t>(a)); }
void* operator new(std::size_t n, const std::nothrow_t&) noexcept {
    try {
        return track::do_alloc(n, alignof(std::max_align_t));
    } catch (...) { return nullptr; }
}
void* operator new[](std::size_t n, const std::nothrow_t&) noexcept {
    try {
        return track::do_alloc(n, alignof(std::max_align_t));
    } catch (...) { return nullptr; }
}
void operator delete(void* p) noexcept { track::do_free(p, 0, 0); }
void operator delete[](void* p) noexcept { track::do_free(p, 0, 0); }
void operator delete(void* p, std::size_t n) noexcept { track::do_free(p, n, 0); }
void operator delete[](void* p, std::size_t n) noexcept { track::do_free(p, n, 0); }
void operator delete(void* p, std::align_val_t a) noexcept { track::do_free(p, 0, static_cast<std::size_t>(a)); }
void operator delete[](void* p, std::align_val_t a) noexcept { track::do_free(p, 0, static_cast<std::size_t>(a)); }
void operator delete(void* p, std::size_t n, std::align_val_t a) noexcept { track::do_free(p, n, static_cast<std::size_t>(a)); }
void operator delete[](void* p, std::size_t n, std::align_val_t a) noexcept { track::do_free(p, n, static_cast<std::size_t>(a)); }
void operator delete(void* p, const std::nothrow_t&) noexcept { track::do_free(p, 0, 0); }
void operator delete[](void* p, const std::nothrow_t&) noexcept { track::do_free(p, 0, 0); }
#endif
