// Chooser: decodes a byte string into structured choices.
// Every generated case in this framework is a byte string; rapidcheck (or libFuzzer) generates and
// shrinks the bytes, the Chooser turns them into programs / schedules.  An exhausted Chooser yields 0,
// and 0 always decodes to the simplest alternative, so byte-level shrinking (drop chunks, lower
// bytes) is structural shrinking (fewer ops, fewer preemptions, shorter keys).
#pragma once
#include <cstddef>
#include <cstdint>
#include <initializer_list>
#include <string>
#include <vector>

namespace vf {

class Chooser {
public:
    Chooser(const std::uint8_t* p, std::size_t n) : p_(p), n_(n) {}
    explicit Chooser(const std::vector<std::uint8_t>& v) : p_(v.data()), n_(v.size()) {}

    std::uint8_t byte() { return pos_ < n_ ? p_[pos_++] : 0; }
    bool exhausted() const { return pos_ >= n_; }
    std::size_t consumed() const { return pos_; }
    std::size_t remaining() const { return pos_ < n_ ? n_ - pos_ : 0; }

    // value in [lo, hi] (inclusive)
    std::uint32_t range(std::uint32_t lo, std::uint32_t hi) {
        if (hi <= lo) { return lo; }
        std::uint64_t span = static_cast<std::uint64_t>(hi) - lo + 1;
        std::uint64_t v = 0;
        if (span <= 256) {
            v = byte();
        } else if (span <= 65536) {
            v = byte();
            v |= static_cast<std::uint64_t>(byte()) << 8U;
        } else {
            for (int i = 0; i < 4; ++i) { v |= static_cast<std::uint64_t>(byte()) << (8U * i); }
        }
        return lo + static_cast<std::uint32_t>(v % span);
    }
    // true with probability num/den; 0 byte => false
    bool chance(unsigned num, unsigned den) { return (byte() % den) >= (den - num); }
    bool flip() { return (byte() & 1U) != 0; }
    // index chosen by weights; 0 byte => first alternative
    std::size_t weighted(std::initializer_list<unsigned> w) {
        unsigned tot = 0;
        for (auto x : w) { tot += x; }
        if (tot == 0) { return 0; }
        unsigned r = range(0, tot - 1);
        std::size_t i = 0;
        for (auto x : w) {
            if (r < x) { return i; }
            r -= x;
            ++i;
        }
        return w.size() - 1;
    }
    std::size_t weighted(const std::vector<unsigned>& w) {
        unsigned tot = 0;
        for (auto x : w) { tot += x; }
        if (tot == 0) { return 0; }
        unsigned r = range(0, tot - 1);
        for (std::size_t i = 0; i < w.size(); ++i) {
            if (r < w[i]) { return i; }
            r -= w[i];
        }
        return w.size() - 1;
    }
    template<class T>
    const T& pick(const std::vector<T>& v) { return v[range(0, static_cast<std::uint32_t>(v.size() - 1))]; }

private:
    const std::uint8_t* p_;
    std::size_t n_;
    std::size_t pos_{0};
};

inline std::string hex(const std::string& s) {
    static const char* d = "0123456789abcdef";
    std::string o;
    o.reserve(s.size() * 2);
    for (unsigned char c : s) {
        o.push_back(d[c >> 4U]);
        o.push_back(d[c & 15U]);
    }
    return o;
}
inline std::string hex(const std::vector<std::uint8_t>& v) {
    return hex(std::string(reinterpret_cast<const char*>(v.data()), v.size()));
}
inline std::vector<std::uint8_t> unhex(const std::string& h) {
    std::vector<std::uint8_t> o;
    auto val = [](char c) -> int {
        if (c >= '0' && c <= '9') { return c - '0'; }
        if (c >= 'a' && c <= 'f') { return c - 'a' + 10; }
        if (c >= 'A' && c <= 'F') { return c - 'A' + 10; }
        return -1;
    };
    int hi = -1;
    for (char c : h) {
        int v = val(c);
        if (v < 0) { continue; }
        if (hi < 0) {
            hi = v;
        } else {
            o.push_back(static_cast<std::uint8_t>(hi * 16 + v));
            hi = -1;
        }
    }
    return o;
}
// printable rendering of a binary key: ascii kept, others \xNN
inline std::string show(const std::string& s, std::size_t max = 48) {
    std::string o;
    static const char* d = "0123456789abcdef";
    std::size_t n = 0;
    for (unsigned char c : s) {
        if (n++ >= max) {
            o += "...(" + std::to_string(s.size()) + "B)";
            break;
        }
        if (c >= 0x20 && c < 0x7f && c != '\\' && c != '"') {
            o.push_back(static_cast<char>(c));
        } else {
            o += "\\x";
            o.push_back(d[c >> 4U]);
            o.push_back(d[c & 15U]);
        }
    }
    return o;
}

} // namespace vf
