#!/bin/bash
# Confirms a seeded change's demonstration: builds demo.cpp against a scratch worktree with and without the patch.
#   tools/confirm_demo.sh <dir with patch.diff and demo.cpp>      prints: demo_without=<rc> demo_with=<rc>
set -u
D="$1"; WT=/tmp/demock/wt
mkdir -p /tmp/demock
[ -d $WT ] || git -C /repo worktree add -q --detach $WT HEAD
git -C $WT checkout -q --detach "$(git -C /repo rev-parse HEAD)"; git -C $WT checkout -- .
FLAGS="-std=gnu++17 -O1 -g -I$WT/include"
grep -q "YAKUSHIMA_VERIF\|verif::" "$D/demo.cpp" && FLAGS="$FLAGS -DYAKUSHIMA_VERIF"
# extra -D flags named in a first-line "// build: ..." comment of the demo
EXTRA=$(head -1 "$D/demo.cpp" | grep "^// build:" | grep -o -- "-D[A-Za-z_][A-Za-z_0-9=]*" | tr '\n' ' ')
FLAGS="$FLAGS $EXTRA"
grep -q "gtest" "$D/demo.cpp" && LIBS="-lgtest -lgtest_main" || LIBS=""
build_run() {
  g++ $FLAGS "$D/demo.cpp" -o /tmp/demock/demo $LIBS -lglog -ltbb -lpthread 2>/tmp/demock/build.log || { echo BUILDFAIL; return 99; }
  timeout 300 /tmp/demock/demo > /tmp/demock/run.log 2>&1; return $?
}
build_run; r0=$?
git -C $WT apply "$D/patch.diff" || { echo "PATCH DOES NOT APPLY"; exit 3; }
build_run; r1=$?
git -C $WT checkout -- .
echo "demo_without=$r0 demo_with=$r1"
