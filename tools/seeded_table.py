#!/usr/bin/env python3
"""Runs the quick (or $TIER) check(s) of each seeded change's property against it and records the outcome in its meta.json.

    tools/seeded_table.py run [id ...]     (default: all under /verif/seeded)
    tools/seeded_table.py table            (markdown table from the meta.json files)

A change may list extra properties to try in meta.json["also_try"] (e.g. C16-B is a C07 violation in a later cycle).
"""
import json
import os
import subprocess
import sys
import time

VERIF = os.path.dirname(os.path.dirname(os.path.abspath(__file__)))
SEEDED = os.path.join(VERIF, "seeded")


def run(ids):
    for d in sorted(os.listdir(SEEDED)):
        if ids and d not in ids:
            continue
        mp = os.path.join(SEEDED, d, "meta.json")
        if not os.path.exists(mp):
            continue
        m = json.load(open(mp))
        props = [m["property"]] + m.get("also_try", [])
        results = {}
        for p in props:
            t0 = time.time()
            r = subprocess.run([os.path.join(VERIF, "tools", "check_seeded.sh"), os.path.join(SEEDED, d, "patch.diff"), p],
                               capture_output=True, text=True, env=dict(os.environ, TIER=os.environ.get("TIER", "quick")))
            dt = round(time.time() - t0)
            if "PATCH DOES NOT APPLY" in r.stdout:
                results[p] = {"detected": False, "signatures": [], "seconds": 0, "tier": "-", "note": "patch does not apply to HEAD"}
                print(d, p, "PATCH DOES NOT APPLY", flush=True)
                continue
            viol = [l for l in r.stdout.splitlines() if l.startswith("VIOLATION")]
            sigs = sorted({os.path.basename(v.split("replay=")[1]).rsplit("-", 1)[0] for v in viol})
            results[p] = {"detected": bool(viol), "signatures": sigs, "seconds": dt, "tier": os.environ.get("TIER", "quick")}
            print(d, p, "detected" if viol else "MISSED", dt, "s", ",".join(sigs), flush=True)
        m["detected_by"] = results
        json.dump(m, open(mp, "w"), indent=1)


def reconfirm(ids):
    """re-run every demonstration against the current HEAD of /repo (a later fix may have neutralised an old change)"""
    for d in sorted(os.listdir(SEEDED)):
        if ids and d not in ids:
            continue
        mp = os.path.join(SEEDED, d, "meta.json")
        if not os.path.exists(mp):
            continue
        m = json.load(open(mp))
        r = subprocess.run([os.path.join(VERIF, "tools", "confirm_demo.sh"), os.path.join(SEEDED, d)], capture_output=True, text=True)
        last = (r.stdout.strip().splitlines() or [""])[-1]
        head = subprocess.run(["git", "-C", "/repo", "rev-parse", "--short", "HEAD"], capture_output=True, text=True).stdout.strip()
        m.setdefault("confirmed", {})["on_head"] = {"head": head, "result": last}
        json.dump(m, open(mp, "w"), indent=1)
        print(d, last, flush=True)


def table():
    print("| id | property | change | quick check result |")
    print("|---|---|---|---|")
    for d in sorted(os.listdir(SEEDED)):
        mp = os.path.join(SEEDED, d, "meta.json")
        if not os.path.exists(mp):
            continue
        m = json.load(open(mp))
        det = m.get("detected_by")
        if isinstance(det, dict):
            txt = "; ".join("%s: %s%s" % (p, "caught (%s, %ds)" % (",".join(r["signatures"]), r["seconds"]) if r["detected"] else "missed", "") for p, r in det.items())
        else:
            txt = str(det)
        print("| %s | %s | %s | %s |" % (d, m["property"], m["change"], txt))


if __name__ == "__main__":
    if len(sys.argv) >= 2 and sys.argv[1] == "table":
        table()
    elif len(sys.argv) >= 2 and sys.argv[1] == "reconfirm":
        reconfirm(set(sys.argv[2:]))
    else:
        run(set(sys.argv[2:]))
