#!/bin/bash
# Runs the quick checks of the given properties against a seeded change applied to a scratch worktree.
#   tools/check_seeded.sh <patch.diff> <Cnn> [Cnn ...]
set -u
PATCH="$1"; shift
D=${SEEDCHK:-/tmp/seedchk}; WT=$D/wt; OUT=$D/out
mkdir -p $D
[ -d $WT ] || git -C /repo worktree add -q --detach $WT HEAD
git -C $WT checkout -q --detach "$(git -C /repo rev-parse HEAD)"; git -C $WT checkout -- .
git -C $WT apply "$PATCH" || { echo "PATCH DOES NOT APPLY"; exit 3; }
for P in "$@"; do
  rm -rf $OUT/replays $OUT/evidence
  t0=$(date +%s)
  VERIF_REPO=$WT VERIF_OUT=$OUT /verif/check $P --tier ${TIER:-quick} > $OUT.$P.log 2>&1
  rc=$?
  t1=$(date +%s)
  echo "== $P rc=$rc $((t1-t0))s"; grep -E "^VIOLATION|^KNOWN|^OK|BUILD FAILED" $OUT.$P.log | cut -c1-200
  for f in $OUT/replays/$P/*.hex; do [ -f "$f" ] && head -3 "$f" | cut -c1-220; done
done
git -C $WT checkout -- .
