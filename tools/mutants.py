#!/usr/bin/env python3
"""Sensitivity harness: applies deliberate breaks (one at a time) to a scratch worktree of /repo and runs the quick check
of the property each one should violate.  A check that stays green against its mutants is decoration.

    tools/mutants.py list
    tools/mutants.py run [id ...]        (default: all)   -> tools/mutants_result.json

Nothing here touches /repo itself or /verif/evidence: the scratch worktree lives under /tmp/verif_mut and the checks run with
VERIF_REPO / VERIF_OUT pointing there.
"""
import json
import os
import subprocess
import sys
import time

VERIF = os.path.dirname(os.path.dirname(os.path.abspath(__file__)))
WT = "/tmp/verif_mut/wt"
OUT = "/tmp/verif_mut/out"

# (id, property, file, old, new, description)
M = [
    ("m01a", "C11", "include/interface_put.h",
     "            lv_ptr = target_border->get_lv_of_without_lock(key_slice, key_slice_length);\n            if (lv_ptr == nullptr) {\n                target_border->version_unlock();\n                goto retry_fetch_lv; // NOLINT\n            }\n",
     "",
     "put(update): drop the re-lookup under the lock (deletes are not tracked by the version)"),
    ("m01b", "C01", "include/border_helper.h",
     "    border->set_version_inserting_deleting(true);\n    std::size_t cnk = border->get_permutation_cnk();",
     "    std::size_t cnk = border->get_permutation_cnk();",
     "insert_lv: do not flag inserting_deleting (inserts no longer bump vinsert)"),
    ("m01c", "C01", "include/interface_remove.h",
     "        lv_ptr = target_border->get_lv_of_without_lock(key_slice, key_length);\n        if (lv_ptr == nullptr) {\n            target_border->version_unlock();\n            return status::OK_NOT_FOUND;\n        }\n",
     "",
     "remove: drop the re-lookup under the lock"),
    ("m02a", "C02", "include/interior_helper.h",
     "                base_node* sibling = get_child_at(1 - i); // i == 0 or 1",
     "                base_node* sibling = get_child_at(i); // i == 0 or 1",
     "interior collapse promotes the removed child instead of its sibling"),
    ("m02b", "C02", "include/border_node.h",
     "                if (key_length < target_key_len) { return i; }\n            } else if (ret < 0) {",
     "                if (key_length <= target_key_len) { return i; }\n            } else if (ret < 0) {",
     "compute_rank_if_insert: same effect"),
    ("m02c", "C02", "include/border_helper.h",
     "        (ret_memcmp == 0 && key_length < new_border->get_key_length_at(0)) ||",
     "        (ret_memcmp == 0 && key_length <= new_border->get_key_length_at(0) + 1) ||",
     "border_split: wrong side when the new key shares the first slice bytes with the split point"),
    ("m03a", "C03", "include/scan_helper.h",
     "                                    (l_key.size() == kl &&\n                                     l_end == scan_endpoint::EXCLUSIVE)))) {",
     "                                    (l_key.size() == kl &&\n                                     l_end == scan_endpoint::INCLUSIVE)))) {",
     "scan: EXCLUSIVE/INCLUSIVE swapped at the left endpoint"),
    ("m03b", "C03", "include/scan_helper.h",
     "                (r_cmp == 0 && (r_key.size() > full_key.size() ||",
     "                (r_cmp == 0 && (r_key.size() >= full_key.size() ||",
     "scan: EXCLUSIVE right endpoint includes the endpoint key"),
    ("m04a", "C04", "include/scan_helper.h",
     "    // log before verify for atomicity\n    node_version64_body next_version{};\n    if (next != nullptr) { next_version = next->get_stable_version(); }\n\n    // final check for atomicity\n    status check_status = scan_check_retry(bn, v_at_fb);",
     "    // final check for atomicity\n    status check_status = scan_check_retry(bn, v_at_fb);\n    node_version64_body next_version{};\n    if (next != nullptr) { next_version = next->get_stable_version(); }",
     "scan_border: version of the next border taken after the final check of the current one"),
    ("m04b", "C04", "include/scan_helper.h",
     "    if (check != v_at_fb) {\n        // fail optimistic verify\n        if (check.get_vsplit() != v_at_fb.get_vsplit() || check.get_deleted()) {",
     "    if (check.get_vsplit() != v_at_fb.get_vsplit() || check.get_deleted()) {\n        // fail optimistic verify\n        if (check.get_vsplit() != v_at_fb.get_vsplit() || check.get_deleted()) {",
     "scan_check_retry ignores vinsert changes (inserts during the scan of a border go unnoticed)"),
    ("m05a", "C05", "include/scan_helper.h",
     "    // done about checking for all elements of border node.\n\n    if (!tuple_pushed_num && node_version_vec != nullptr) {",
     "    // done about checking for all elements of border node.\n\n    if (false && !tuple_pushed_num && node_version_vec != nullptr) {",
     "scan_border: a visited border without hits is not recorded"),
    ("m05b", "C06", "include/interface_get.h",
     "            checked_version->first = v_at_fetch_lv;",
     "            checked_version->first = target_border->get_stable_version();",
     "get miss: reports the version read after the lookup instead of the validated one"),
    ("m06a", "C06", "include/border_helper.h",
     "    new_border->set_version(border->get_version());",
     "    { node_version64_body nb = border->get_version(); nb.set_splitting(false); nb.set_inserting_deleting(false); new_border->set_version(nb); }",
     "border_split: the new sibling does not inherit the dirty bits (its version does not change at unlock)"),
    ("m07a", "C07", "include/garbage_collection.h",
     "            if (std::get<gc_epoch_index>(elem) >= gc_epoch) {\n                cache_value_container_ = elem;",
     "            if (std::get<gc_epoch_index>(elem) > gc_epoch) {\n                cache_value_container_ = elem;",
     "gc_value frees a value whose tag equals the gc epoch"),
    ("m07b", "C07", "include/manager_thread.h",
     "                garbage_collection::set_gc_epoch(min_epoch - 1);",
     "                garbage_collection::set_gc_epoch(min_epoch + 1);",
     "gc epoch computed as min begin epoch + 1"),
    ("m08a", "C08", "include/border_helper.h",
     "        new_border->get_next()->set_prev(new_border);",
     "        (void) new_border;",
     "border_split forgets to fix next->prev"),
    ("m09a", "C09", "include/border_node.h",
     "                        ti->root_unlock();\n                        version_unlock();\n                        return;",
     "                        version_unlock();\n                        return;",
     "emptying the tree root leaves the root lock held"),
    ("m10a", "C10", "include/interface_iscan.h",
     "    if (check_v != v_at_fb || check_perm_b != perm.get_body()) {",
     "    if (check_v != v_at_fb) {",
     "iscan_check_retry ignores permutation changes (removes under the cursor)"),
    ("m11a", "C11", "include/storage_impl.h",
     "    if (ret_st != status::OK) {\n        delete new_border; // NOLINT\n    }",
     "",
     "failed create_storage leaks its speculative root border"),
    ("m12a", "C12", "include/border_helper.h",
     "        inserted_node_info_ptr->modified_nvp = border->get_version_ptr();\n        inserted_node_info_ptr->created_nvp = new_border->get_version_ptr();",
     "        inserted_node_info_ptr->modified_nvp = new_border->get_version_ptr();\n        inserted_node_info_ptr->created_nvp = border->get_version_ptr();",
     "border_split reports modified/created swapped"),
    ("m13a", "C13", "include/storage_impl.h",
     "    status ret_st{remove(token, get_storages(), storage_name)};\n    if (ret_st == status::OK) {",
     "    status ret_st{status::OK};\n    if (ret_st == status::OK) {",
     "delete_storage destroys the tree but keeps the name"),
    ("m14a", "C14", "include/thread_info.h",
     "            if (running_.compare_exchange_weak(expected, true,\n                                               std::memory_order_acq_rel,\n                                               std::memory_order_acquire)) {",
     "            running_.store(true, std::memory_order_release);\n            if (true) {",
     "gain_the_right: plain store instead of CAS"),
    ("m15a", "C15", "include/interface_put.h",
     "                    auto [o_ptr, o_len, o_align] = value::get_gc_info(old_v);",
     "                    auto [o_ptr, o_len, o_align] = value::get_gc_info(v);",
     "overwrite retires the new value instead of the old one"),
    ("m16a", "C16", "include/manager_thread.h",
     "        kGCThreadEnd.store(false, std::memory_order_release);\n",
     "",
     "gc thread end flag is not lowered again (half of the original defect)"),
    ("m17a", "C17", "include/version.h",
     "            if (desired.get_splitting()) {\n                desired.inc_vsplit();\n                desired.set_splitting(false);\n            }\n            desired.set_locked(false);",
     "            if (desired.get_splitting()) {\n                desired.inc_vsplit();\n            }\n            desired.set_locked(false);",
     "unlock does not clear the splitting bit"),
    ("m17b", "C17", "include/version.h",
     "            if (!sv.get_inserting_deleting() && !sv.get_locked() &&\n                !sv.get_splitting()) {",
     "            if (!sv.get_inserting_deleting() &&\n                !sv.get_splitting()) {",
     "get_stable_version returns while the word is locked"),
    ("m18a", "C18", "include/interior_node.h",
     "                                        comp_length > sizeof(key_slice_type)\n                                                ? sizeof(key_slice_type)\n                                                : comp_length);",
     "                                        sizeof(key_slice_type));",
     "get_child_of compares 8 bytes regardless of the key length"),
    ("m19a", "C19", "include/permutation.h",
     "        if (rank == cnk - 1 || rank == key_slice_length - 1) {",
     "        if (rank == cnk - 1) {",
     "delete_rank without the rank==14 special case"),
    ("m20a", "C20", "include/link_or_value.h",
     "            child->mem_usage(level + 1, mem_stat);",
     "            child->mem_usage(level, mem_stat);",
     "mem_usage counts a next-layer root at the level of the linking border"),
    ("m14c", "C14", "include/thread_info_table.h",
     "        for (auto&& elem : thread_info_table_) {\n            if (elem.gain_the_right()) {",
     "        for (std::uint8_t idx = 0; idx < static_cast<std::uint8_t>(thread_info_table_.size()); ++idx) {\n            auto& elem = thread_info_table_.at(idx);\n            if (elem.gain_the_right()) {",
     "assign_thread_info indexes the slot table with 8 bits: only 300 mod 256 = 44 of the default 300 slots are usable (capacities 1-3 unaffected)"),
    ("m09b", "C09", "include/base_node.h",
     "            if (p == check) { return p; }\n            p->version_unlock();\n            p = check;",
     "            if (p == check) { return p; }\n            p = check;",
     "lock_parent does not release the lock of a node that is no longer the parent"),
]


def sh(cmd, **kw):
    return subprocess.run(cmd, shell=True, capture_output=True, text=True, **kw)


def ensure_wt():
    os.makedirs("/tmp/verif_mut", exist_ok=True)
    if not os.path.isdir(WT):
        r = sh("git -C /repo worktree add --detach %s HEAD" % WT)
        if r.returncode != 0:
            raise SystemExit(r.stderr)
    sh("git -C %s checkout -q --detach $(git -C /repo rev-parse HEAD) && git -C %s checkout -- ." % (WT, WT))


def main():
    if len(sys.argv) < 2 or sys.argv[1] == "list":
        for m in M:
            print(m[0], m[1], m[2], "-", m[5])
        return
    want = set(sys.argv[2:])
    ensure_wt()
    res_path = os.path.join(VERIF, "tools", "mutants_result.json")
    results = json.load(open(res_path)) if os.path.exists(res_path) else {}
    for mid, prop, f, old, new, desc in M:
        if want and mid not in want:
            continue
        sh("git -C %s checkout -- ." % WT)
        p = os.path.join(WT, f)
        s = open(p).read()
        if s.count(old) != 1:
            print(mid, "PATCH DOES NOT APPLY (count=%d)" % s.count(old))
            results[mid] = {"property": prop, "desc": desc, "result": "patch_does_not_apply"}
            continue
        open(p, "w").write(s.replace(old, new))
        t0 = time.time()
        env = dict(os.environ, VERIF_REPO=WT, VERIF_OUT=OUT)
        r = subprocess.run([os.path.join(VERIF, "check"), prop, "--tier", "quick"], capture_output=True, text=True, env=env)
        dt = time.time() - t0
        viol = [l for l in r.stdout.splitlines() if l.startswith("VIOLATION")]
        status = "detected" if viol else ("build_failed" if "BUILD FAILED" in (r.stdout + r.stderr) else "MISSED")
        sigs = sorted({os.path.basename(v.split("replay=")[1]).rsplit("-", 1)[0] for v in viol})
        print("%s %s %-9s %5.0fs %s  -- %s" % (mid, prop, status, dt, ",".join(sigs), desc), flush=True)
        results[mid] = {"property": prop, "desc": desc, "result": status, "signatures": sigs, "seconds": round(dt)}
        json.dump(results, open(res_path, "w"), indent=1)
        sh("rm -rf %s/replays %s/evidence" % (OUT, OUT))
    sh("git -C %s checkout -- ." % WT)


if __name__ == "__main__":
    main()
