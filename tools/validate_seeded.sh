#!/bin/bash
# Confirms a seeded change: applies <patch> to the scratch worktree /tmp/val/wt (at /repo's HEAD), rebuilds the project's own test
# suite with the guard OFF and runs it (8-CPU shim, the always-failing 100k test excluded), then reverts the worktree.
#   tools/validate_seeded.sh <patch.diff> <log-prefix>
# exit 0 = builds and the suite passes (i.e. the change is invisible to the existing tests)
set -u
PATCH="$1"; LOG="$2"
WT=/tmp/val/wt; B=/tmp/val/build
git -C $WT checkout -q --detach "$(git -C /repo rev-parse HEAD)" 2>/dev/null
git -C $WT checkout -- include
if ! git -C $WT apply "$PATCH" 2>"$LOG.apply"; then echo "PATCH DOES NOT APPLY"; cat "$LOG.apply"; exit 3; fi
[ -f /tmp/np8.so ] || gcc -shared -fPIC -O1 /verif/tools/np8.c -o /tmp/np8.so -ldl
cmake --build $B -j 10 -- -k 0 > "$LOG.build" 2>&1
# the only target allowed to fail to build is iscan_concurrent_modify_test (does not compile on the original tree either)
if grep -E "^FAILED:" "$LOG.build" | grep -v iscan_concurrent_modify_test | grep -q .; then echo "BUILD FAILED"; git -C $WT checkout -- include; exit 2; fi
LD_PRELOAD=/tmp/np8.so ctest --test-dir $B -j6 --timeout 900 -E "multi_thread_delete_100k_key_test|iscan_concurrent_modify_test" > "$LOG.ctest" 2>&1
rc=$?
git -C $WT checkout -- include
tail -4 "$LOG.ctest" | head -3
grep -E "Failed|Timeout" "$LOG.ctest" | head
exit $rc
